"""Micro-prototype of Engine A: SELECT ... FROM a [INNER|LEFT] JOIN b ON ... with arithmetic, keyed-set equivalence."""
import z3, sqlglot, time, itertools
from sqlglot import exp

class Val:
    def __init__(s, null, v): s.null, s.v = null, v
class Row:
    def __init__(s, present, cols): s.present, s.cols = present, cols   # cols: dict lname -> Val
def mk_table(name, schema, n):
    rows = []
    for i in range(n):
        cols = {}
        for c, (sort, nullable) in schema.items():
            v = z3.Const(f"{name}_{c}_{i}", sort)
            nl = z3.Bool(f"{name}_{c}_{i}_null") if nullable else z3.BoolVal(False)
            cols[c.lower()] = Val(nl, v)
        rows.append(Row(z3.Bool(f"{name}_p{i}"), cols))
    return rows
def valid(rows, ids):
    cs = []
    for a, b in itertools.combinations(rows, 2):
        cs.append(z3.Implies(z3.And(a.present, b.present), z3.Or(*[a.cols[i].v != b.cols[i].v for i in ids])))
    return z3.And(*cs) if cs else z3.BoolVal(True)

def ev(e, env):
    """env: dict alias -> Row ; returns Val (3VL for Bool)"""
    if isinstance(e, exp.Paren): return ev(e.this, env)
    if isinstance(e, exp.Alias): return ev(e.this, env)
    if isinstance(e, exp.Column):
        t = e.table.lower() if e.table else None
        n = e.name.lower()
        if t: return env[t].cols[n]
        hits = [r.cols[n] for r in env.values() if n in r.cols]
        assert len(hits) == 1, (n, len(hits)); return hits[0]
    if isinstance(e, exp.Literal):
        return Val(z3.BoolVal(False), z3.IntVal(int(e.this)))
    if isinstance(e, (exp.Add, exp.Sub, exp.Mul)):
        a, b = ev(e.this, env), ev(e.expression, env)
        op = {exp.Add: lambda x,y: x+y, exp.Sub: lambda x,y: x-y, exp.Mul: lambda x,y: x*y}[type(e)]
        return Val(z3.Or(a.null, b.null), op(a.v, b.v))
    if isinstance(e, exp.EQ):
        a, b = ev(e.this, env), ev(e.expression, env)
        return Val(z3.Or(a.null, b.null), a.v == b.v)
    if isinstance(e, exp.And):
        a, b = ev(e.this, env), ev(e.expression, env)
        f = z3.Or(z3.And(z3.Not(a.null), z3.Not(a.v)), z3.And(z3.Not(b.null), z3.Not(b.v)))
        return Val(z3.And(z3.Not(f), z3.Or(a.null, b.null)), z3.And(a.v, b.v))
    raise NotImplementedError(type(e))
def is_true(v): return z3.And(z3.Not(v.null), v.v)

def eval_select(sel, tables):
    frm = sel.args["from_"].this
    a_alias = frm.alias.lower(); a_rows = tables[frm.name]
    envs = [(r.present, {a_alias: r}) for r in a_rows]
    for j in sel.args.get("joins") or []:
        b_alias = j.this.alias.lower(); b_rows = tables[j.this.name]
        kind = (j.kind or "INNER").upper() if j.kind else ("LEFT" if j.side == "LEFT" else "INNER")
        if j.side: kind = j.side.upper()
        new = []
        for p, env in envs:
            matches = []
            for br in b_rows:
                e2 = dict(env); e2[b_alias] = br
                m = z3.And(p, br.present, is_true(ev(j.args["on"], e2)))
                matches.append(m); new.append((m, e2))
            if kind == "LEFT":
                nullrow = Row(z3.BoolVal(True), {c: Val(z3.BoolVal(True), v.v) for c, v in b_rows[0].cols.items()})
                e3 = dict(env); e3[b_alias] = nullrow
                new.append((z3.And(p, z3.Not(z3.Or(*matches))), e3))
        envs = new
    out = []
    for p, env in envs:
        cols = {}
        for item in sel.expressions:
            cols[item.alias_or_name.lower()] = ev(item, env)
        out.append(Row(p, cols))
    return out

def veq(a, b): return z3.Or(z3.And(a.null, b.null), z3.And(z3.Not(a.null), z3.Not(b.null), a.v == b.v))
def row_eq(r, s, names): return z3.And(*[veq(r.cols[n], s.cols[n]) for n in names])
def subset(A, B, names): return z3.And(*[z3.Implies(r.present, z3.Or(*[z3.And(s.present, row_eq(r, s, names)) for s in B])) for r in A])

def spec_plus(ds1, ds2, ids, measures):
    out = []
    for r in ds1:
        for s in ds2:
            p = z3.And(r.present, s.present, *[r.cols[i].v == s.cols[i].v for i in ids])
            cols = {i: r.cols[i] for i in ids}
            for m in measures:
                cols[m] = Val(z3.Or(r.cols[m].null, s.cols[m].null), r.cols[m].v + s.cols[m].v)
            out.append(Row(p, cols))
    return out

N = 3
schema = {"Id_1": (z3.IntSort(), False), "Id_2": (z3.IntSort(), False), "Me_1": (z3.IntSort(), True), "Me_2": (z3.IntSort(), True)}
for kind in ["INNER", "LEFT"]:
    sql = f'SELECT a."Id_1", a."Id_2", (a."Me_1" + b."Me_1") AS "Me_1", (a."Me_2" + b."Me_2") AS "Me_2" FROM "DS_1" AS a {kind} JOIN "DS_2" AS b ON a."Id_1" = b."Id_1" AND a."Id_2" = b."Id_2"'
    t1, t2 = mk_table("DS_1", schema, N), mk_table("DS_2", schema, N)
    got = eval_select(sqlglot.parse_one(sql, dialect="duckdb"), {"DS_1": t1, "DS_2": t2})
    want = spec_plus(t1, t2, ["id_1", "id_2"], ["me_1", "me_2"])
    names = ["id_1", "id_2", "me_1", "me_2"]
    s = z3.Solver()
    s.add(valid(t1, ["id_1", "id_2"]), valid(t2, ["id_1", "id_2"]))
    s.add(z3.Not(z3.And(subset(got, want, names), subset(want, got, names))))
    t = time.time(); r = s.check(); print(kind, r, round(time.time() - t, 2))
    if r == z3.sat:
        m = s.model()
        for nm, tb in (("DS_1", t1), ("DS_2", t2)):
            print(nm, [{c: (None if z3.is_true(m.eval(v.null, True)) else m.eval(v.v, True)) for c, v in r_.cols.items()} for r_ in tb if z3.is_true(m.eval(r_.present, True))])
