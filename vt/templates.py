"""Script templates (hand-built ASTs + input structures + row bound) per property.

Every template is a *family of all inputs*: the data of every input dataset is symbolic.  The
lists below enumerate program shapes; the solver quantifies over the datapoints.
"""
import itertools

from vt.astb import (agg, aggr, analytic, assign, between, binop, calc, case, cast, const, drop, filter_, having, if_, in_,
                     join, keep, member, paramop, par, rename, setop, start, structure, sub, unop, var, window, optional)

I, M = "Identifier", "Measure"


def S(name, ids, meas, extra=()):
    comps = [(n, t, I, False) for n, t in ids] + [(n, t, M, True) for n, t in meas] + list(extra)
    return structure(name, comps)


ID2 = [("Id_1", "Integer"), ("Id_2", "String")]
ID1 = [("Id_1", "Integer")]
# pool of input structures
POOL = [
    S("DS_1", ID2, [("Me_1", "Integer"), ("Me_2", "Number")]),
    S("DS_2", ID2, [("Me_1", "Integer"), ("Me_2", "Number")]),
    S("DS_3", ID1, [("Me_1", "Integer"), ("Me_2", "Number")]),
    S("DS_4", ID2, [("Me_1", "Integer")]),
    S("DS_5", ID2, [("Me_1", "Integer")]),
    S("DS_6", ID1, [("Me_1", "Integer")]),
    S("DS_B", ID2, [("Me_1", "Boolean")]),
    S("DS_B2", ID2, [("Me_1", "Boolean")]),
    S("DS_S", ID1, [("Me_1", "String")]),
    S("DS_S2", ID1, [("Me_1", "String")]),
    S("DS_N", ID1, [("Me_1", "Number")]),
    S("DS_N2", ID1, [("Me_1", "Number")]),
    S("DS_J", ID1, [("Me_3", "Integer"), ("Me_4", "Number")]),
    S("DS_K", ID2, [("Me_5", "Integer")]),
    S("DS_X", ID2, [("Me_1", "Integer"), ("Me_2", "Number"), ("Me_3", "Boolean"), ("Me_4", "String")]),
    S("DS_7", [("Id_1", "Integer"), ("Id_2", "String"), ("Id_3", "Integer")], [("Me_1", "Integer")]),
]


def T(tid, expr, nrows=2, extra_stmts=(), **kw):
    stmts = list(extra_stmts) + [assign("DS_r", expr)]
    d = dict(id=tid, ast=start(*stmts), structs=POOL, nrows=nrows)
    d.update(kw)
    return d


ARITH = ["+", "-", "*", "/"]
CMPS = ["=", "<>", "<", ">", "<=", ">="]
SAFE = {"+": "plus", "-": "minus", "*": "mult", "/": "div", "=": "eq", "<>": "neq", "<": "lt", ">": "gt", "<=": "le", ">=": "ge",
        "||": "concat"}


def sn(op):
    return SAFE.get(op, op)


def c01(tier):
    n = 2 if tier == "quick" else 3
    out = []
    # dataset o dataset: equal ids, subset / superset ids
    for op in ARITH:
        out.append(T("dsds_%s_eq" % sn(op), binop(op, "DS_1", "DS_2"), n))
        out.append(T("dsds_%s_sup" % sn(op), binop(op, "DS_1", "DS_3"), n))
        out.append(T("dsds_%s_sub" % sn(op), binop(op, "DS_3", "DS_1"), n))
    for op in CMPS:
        out.append(T("dsds_%s_int" % sn(op), binop(op, "DS_4", "DS_5"), n))
        out.append(T("dsds_%s_str" % sn(op), binop(op, "DS_S", "DS_S2"), n))
        out.append(T("dsds_%s_num_sub" % sn(op), binop(op, "DS_6", "DS_4"), n))
    for op in ("and", "or", "xor"):
        out.append(T("dsds_%s" % op, binop(op, "DS_B", "DS_B2"), n))
        out.append(T("dssc_%s_true" % op, binop(op, "DS_B", True), n))
        out.append(T("scds_%s_false" % op, binop(op, False, "DS_B"), n))
        out.append(T("dssc_%s_null" % op, binop(op, "DS_B", cast(const(None), "boolean")), n))
    out.append(T("ds_not", unop("not", "DS_B"), n))
    out.append(T("dsds_concat", binop("||", "DS_S", "DS_S2"), n))
    out.append(T("dssc_concat", binop("||", "DS_S", const("x")), n))
    out.append(T("scds_concat", binop("||", const("x"), "DS_S"), n))
    out.append(T("dsds_mod", binop("mod", "DS_4", "DS_5"), n))
    out.append(T("dssc_mod", binop("mod", "DS_4", 3), n))
    # dataset o scalar / scalar o dataset
    for op in ARITH:
        for sc, tag in ((3, "int"), (2.5, "num"), (0, "zero")):
            if op != "/" and tag == "zero":
                continue
            out.append(T("dssc_%s_%s" % (sn(op), tag), binop(op, "DS_1", sc), n))
            out.append(T("scds_%s_%s" % (sn(op), tag), binop(op, sc, "DS_1"), n))
    for op in CMPS:
        out.append(T("dssc_%s" % sn(op), binop(op, "DS_4", 2), n))
        out.append(T("scds_%s" % sn(op), binop(op, 2, "DS_4"), n))
        out.append(T("dssc_%s_str" % sn(op), binop(op, "DS_S", const("b")), n))
    # unary
    for op in ("-", "+", "abs", "ceil", "floor", "exp", "ln", "sqrt"):
        out.append(T("un_%s_multi" % sn(op), unop(op, "DS_1"), n))
        out.append(T("un_%s_mono_num" % sn(op), unop(op, "DS_N"), n))
        out.append(T("un_%s_mono_int" % sn(op), unop(op, "DS_6"), n))
    for op in ("upper", "lower", "trim", "ltrim", "rtrim", "length"):
        out.append(T("un_%s" % op, unop(op, "DS_S"), n))
    out.append(T("isnull_mono", unop("isnull", "DS_4"), n))
    out.append(T("isnull_bool", unop("isnull", "DS_B"), n))
    for op in ("round", "trunc"):
        out.append(T("%s_p2" % op, paramop(op, ["DS_1"], [2]), n))
        out.append(T("%s_p0_mono" % op, paramop(op, ["DS_N"], [0]), n))
        out.append(T("%s_noparam" % op, paramop(op, ["DS_N"], []), n))
    out.append(T("power_dssc", binop("power", "DS_N", 2), n))
    out.append(T("log_dssc", binop("log", "DS_N", 2), n))
    # membership / conditional
    out.append(T("between_ds", between("DS_4", 1, 5), n))
    out.append(T("between_ds_nullbound", between("DS_4", cast(const(None), "integer"), 5), n))
    out.append(T("between_str", between("DS_S", const("a"), const("b")), n))
    out.append(T("in_ds", in_("DS_4", [1, 2]), n))
    out.append(T("notin_ds", in_("DS_4", [1, 2], neg=True), n))
    out.append(T("in_str", in_("DS_S", ["a", "bb"]), n))
    out.append(T("nvl_ds_int", binop("nvl", "DS_4", 0), n))
    out.append(T("nvl_ds_multi", binop("nvl", "DS_1", 7), n))
    out.append(T("nvl_ds_str", binop("nvl", "DS_S", const("z")), n))
    out.append(T("if_ds_ds", if_(binop(">", member("DS_4", "Me_1"), 0), "DS_4", "DS_5"), n))
    out.append(T("if_ds_sc", if_(binop(">", member("DS_4", "Me_1"), 0), "DS_4", 7), n))
    out.append(T("if_sc_ds", if_(binop("=", member("DS_4", "Me_1"), 1), 7, "DS_5"), n))
    out.append(T("if_boolds", if_("DS_B", "DS_4", "DS_5"), n))
    out.append(T("memb_plus", binop("+", member("DS_1", "Me_1"), member("DS_2", "Me_1")), n))
    out.append(T("memb_cmp", binop("<", member("DS_1", "Me_2"), member("DS_2", "Me_2")), n))
    out.append(T("memb_id", member("DS_1", "Id_2"), n))
    # component level (inside calc): component o component, component o scalar
    for op in ARITH + ["mod"]:
        out.append(T("calc_cc_%s" % sn(op), calc("DS_X", [(None, "Me_9", binop(op, "Me_1", "Me_1" if op == "mod" else "Me_2"))]), n))
        out.append(T("calc_cs_%s" % sn(op), calc("DS_X", [(None, "Me_9", binop(op, "Me_1", 2))]), n))
        out.append(T("calc_sc_%s" % sn(op), calc("DS_X", [(None, "Me_9", binop(op, 7, "Me_1"))]), n))
    for op in CMPS:
        out.append(T("calc_cc_%s" % sn(op), calc("DS_X", [(None, "Me_9", binop(op, "Me_1", "Me_2"))]), n))
        out.append(T("calc_cs_%s_str" % sn(op), calc("DS_X", [(None, "Me_9", binop(op, "Me_4", const("b")))]), n))
    for op in ("and", "or", "xor"):
        out.append(T("calc_cc_%s" % op, calc("DS_X", [(None, "Me_9", binop(op, "Me_3", binop(">", "Me_1", 0)))]), n))
    out.append(T("calc_not", calc("DS_X", [(None, "Me_9", unop("not", "Me_3"))]), n))
    out.append(T("calc_isnull", calc("DS_X", [(None, "Me_9", unop("isnull", "Me_2"))]), n))
    out.append(T("calc_nvl", calc("DS_X", [(None, "Me_9", binop("nvl", "Me_1", 0))]), n))
    out.append(T("calc_nvl_cc", calc("DS_X", [(None, "Me_9", binop("nvl", "Me_2", "Me_1"))]), n))
    out.append(T("calc_between", calc("DS_X", [(None, "Me_9", between("Me_1", 0, "Me_2"))]), n))
    out.append(T("calc_in", calc("DS_X", [(None, "Me_9", in_("Me_1", [1, 3]))]), n))
    out.append(T("calc_notin_str", calc("DS_X", [(None, "Me_9", in_("Me_4", ["a", "b"], neg=True))]), n))
    out.append(T("calc_if", calc("DS_X", [(None, "Me_9", if_(binop(">", "Me_1", 0), "Me_1", "Me_2"))]), n))
    out.append(T("calc_if_boolcomp", calc("DS_X", [(None, "Me_9", if_("Me_3", 1, 0))]), n))
    out.append(T("calc_case", calc("DS_X", [(None, "Me_9", case([(binop(">", "Me_1", 0), 1), (binop(">", "Me_1", 5), 2)], 0))]), n))
    out.append(T("calc_concat", calc("DS_X", [(None, "Me_9", binop("||", "Me_4", "Id_2"))]), n))
    out.append(T("calc_abs_neg", calc("DS_X", [(None, "Me_9", unop("abs", unop("-", "Me_2")))]), n))
    out.append(T("calc_ceil", calc("DS_X", [(None, "Me_9", unop("ceil", "Me_2"))]), n))
    out.append(T("calc_floor", calc("DS_X", [(None, "Me_9", unop("floor", "Me_2"))]), n))
    out.append(T("calc_len_upper", calc("DS_X", [(None, "Me_9", unop("length", unop("upper", "Me_4")))]), n))
    out.append(T("calc_div_expr", calc("DS_X", [(None, "Me_9", binop("/", "Me_2", binop("-", "Me_1", 2)))]), n))
    # depth 2 compositions
    out.append(T("d2_add_mul", binop("*", par(binop("+", "DS_1", "DS_2")), "DS_3"), n))
    out.append(T("d2_sub_scalar", binop("-", binop("*", "DS_1", 2), "DS_2"), n))
    out.append(T("d2_cmp_of_sum", binop(">", binop("+", "DS_4", "DS_5"), 3), n))
    out.append(T("d2_nvl_add", binop("+", binop("nvl", "DS_4", 0), "DS_5"), n))
    out.append(T("d2_not_cmp", unop("not", binop("<", "DS_4", "DS_5")), n))
    out.append(T("d2_bool_of_cmps", binop("and", binop(">", "DS_4", 1), binop("<", "DS_5", 1)), n))
    out.append(T("d2_bool_of_cmps_stmt", binop("and", "DS_a", "DS_b"), n,
                 extra_stmts=[assign("DS_a", binop(">", "DS_4", 1)), assign("DS_b", binop("<", "DS_5", 1))]))
    if tier != "quick":
        for a, b in itertools.product(["+", "-", "*"], repeat=2):
            out.append(T("d2_%s_%s_l" % (sn(a), sn(b)), binop(b, par(binop(a, "DS_1", "DS_2")), "DS_3"), n))
            out.append(T("d2_%s_%s_r" % (sn(a), sn(b)), binop(b, "DS_3", par(binop(a, "DS_1", "DS_2"))), n))
            out.append(T("d2_%s_%s_wide_left" % (sn(a), sn(b)), binop(b, par(binop(a, "DS_1", "DS_3")), "DS_2"), n))
        for op in CMPS:
            out.append(T("d2_cmp_%s_abs" % sn(op), binop(op, unop("abs", "DS_4"), "DS_5"), n))
        out.append(T("d3_chain", binop("+", binop("+", binop("+", "DS_4", "DS_5"), "DS_6"), 1), n))
        out.append(T("d2_if_of_sum", if_(binop(">", member("DS_4", "Me_1"), 0), binop("+", "DS_4", "DS_5"), "DS_5"), n))
    return out
