"""Script templates (hand-built ASTs + input structures + row bound) per property.

Every template is a *family of all inputs*: the data of every input dataset is symbolic.  The
lists below enumerate program shapes; the solver quantifies over the datapoints.
"""
import itertools

from vt.astb import (exists_in, unpivot, jbody, agg, aggr, analytic, assign, between, binop, calc, case, cast, const, drop, filter_, having, if_, in_,
                     join, keep, member, paramop, par, rename, setop, start, structure, sub, unop, var, window, optional)

I, M = "Identifier", "Measure"


def S(name, ids, meas, extra=()):
    comps = [(n, t, I, False) for n, t in ids] + [(n, t, M, True) for n, t in meas] + list(extra)
    return structure(name, comps)


ID2 = [("Id_1", "Integer"), ("Id_2", "String")]
ID1 = [("Id_1", "Integer")]
# pool of input structures
POOL = [
    S("DS_1", ID2, [("Me_1", "Integer"), ("Me_2", "Number")]),
    S("DS_2", ID2, [("Me_1", "Integer"), ("Me_2", "Number")]),
    S("DS_3", ID1, [("Me_1", "Integer"), ("Me_2", "Number")]),
    S("DS_4", ID2, [("Me_1", "Integer")]),
    S("DS_5", ID2, [("Me_1", "Integer")]),
    S("DS_6", ID1, [("Me_1", "Integer")]),
    S("DS_B", ID2, [("Me_1", "Boolean")]),
    S("DS_B2", ID2, [("Me_1", "Boolean")]),
    S("DS_S", ID1, [("Me_1", "String")]),
    S("DS_S2", ID1, [("Me_1", "String")]),
    S("DS_N", ID1, [("Me_1", "Number")]),
    S("DS_N2", ID1, [("Me_1", "Number")]),
    S("DS_J", ID1, [("Me_3", "Integer"), ("Me_4", "Number")]),
    S("DS_K", ID2, [("Me_5", "Integer")]),
    S("DS_X", ID2, [("Me_1", "Integer"), ("Me_2", "Number"), ("Me_3", "Boolean"), ("Me_4", "String")]),
    S("DS_7", [("Id_1", "Integer"), ("Id_2", "String"), ("Id_3", "Integer")], [("Me_1", "Integer")]),
]


def T(tid, expr, nrows=2, extra_stmts=(), **kw):
    stmts = list(extra_stmts) + [assign("DS_r", expr)]
    d = dict(id=tid, ast=start(*stmts), structs=POOL, nrows=nrows)
    d.update(kw)
    return d


ARITH = ["+", "-", "*", "/"]
CMPS = ["=", "<>", "<", ">", "<=", ">="]
SAFE = {"+": "plus", "-": "minus", "*": "mult", "/": "div", "=": "eq", "<>": "neq", "<": "lt", ">": "gt", "<=": "le", ">=": "ge",
        "||": "concat"}


def sn(op):
    return SAFE.get(op, op)


def c01(tier):
    n = 2 if tier == "quick" else 3
    out = []
    # dataset o dataset: equal ids, subset / superset ids
    for op in ARITH:
        out.append(T("dsds_%s_eq" % sn(op), binop(op, "DS_1", "DS_2"), n))
        out.append(T("dsds_%s_sup" % sn(op), binop(op, "DS_1", "DS_3"), n))
        out.append(T("dsds_%s_sub" % sn(op), binop(op, "DS_3", "DS_1"), n))
    for op in CMPS:
        out.append(T("dsds_%s_int" % sn(op), binop(op, "DS_4", "DS_5"), n))
        out.append(T("dsds_%s_str" % sn(op), binop(op, "DS_S", "DS_S2"), n))
        out.append(T("dsds_%s_num_sub" % sn(op), binop(op, "DS_6", "DS_4"), n))
    for op in ("and", "or", "xor"):
        out.append(T("dsds_%s" % op, binop(op, "DS_B", "DS_B2"), n))
        out.append(T("dssc_%s_true" % op, binop(op, "DS_B", True), n))
        out.append(T("scds_%s_false" % op, binop(op, False, "DS_B"), n))
        out.append(T("dssc_%s_null" % op, binop(op, "DS_B", cast(const(None), "boolean")), n))
    out.append(T("ds_not", unop("not", "DS_B"), n))
    out.append(T("dsds_concat", binop("||", "DS_S", "DS_S2"), n))
    out.append(T("dssc_concat", binop("||", "DS_S", const("x")), n))
    out.append(T("scds_concat", binop("||", const("x"), "DS_S"), n))
    out.append(T("dsds_mod", binop("mod", "DS_4", "DS_5"), n))
    out.append(T("dssc_mod", binop("mod", "DS_4", 3), n))
    # dataset o scalar / scalar o dataset
    for op in ARITH:
        for sc, tag in ((3, "int"), (2.5, "num"), (0, "zero")):
            if op != "/" and tag == "zero":
                continue
            out.append(T("dssc_%s_%s" % (sn(op), tag), binop(op, "DS_1", sc), n))
            out.append(T("scds_%s_%s" % (sn(op), tag), binop(op, sc, "DS_1"), n))
    for op in CMPS:
        out.append(T("dssc_%s" % sn(op), binop(op, "DS_4", 2), n))
        out.append(T("scds_%s" % sn(op), binop(op, 2, "DS_4"), n))
        out.append(T("dssc_%s_str" % sn(op), binop(op, "DS_S", const("b")), n))
    # unary
    for op in ("-", "+", "abs", "ceil", "floor", "exp", "ln", "sqrt"):
        out.append(T("un_%s_multi" % sn(op), unop(op, "DS_1"), n))
        out.append(T("un_%s_mono_num" % sn(op), unop(op, "DS_N"), n))
        out.append(T("un_%s_mono_int" % sn(op), unop(op, "DS_6"), n))
    for op in ("upper", "lower", "trim", "ltrim", "rtrim", "length"):
        out.append(T("un_%s" % op, unop(op, "DS_S"), n))
    out.append(T("isnull_mono", unop("isnull", "DS_4"), n))
    out.append(T("isnull_bool", unop("isnull", "DS_B"), n))
    for op in ("round", "trunc"):
        out.append(T("%s_p2" % op, paramop(op, ["DS_1"], [2]), n))
        out.append(T("%s_p0_mono" % op, paramop(op, ["DS_N"], [0]), n))
        out.append(T("%s_noparam" % op, paramop(op, ["DS_N"], []), n))
    out.append(T("power_dssc", binop("power", "DS_N", 2), n))
    out.append(T("log_dssc", binop("log", "DS_N", 2), n))
    # membership / conditional
    out.append(T("between_ds", between("DS_4", 1, 5), n))
    out.append(T("between_ds_nullbound", between("DS_4", cast(const(None), "integer"), 5), n))
    out.append(T("between_str", between("DS_S", const("a"), const("b")), n))
    out.append(T("in_ds", in_("DS_4", [1, 2]), n))
    out.append(T("notin_ds", in_("DS_4", [1, 2], neg=True), n))
    out.append(T("in_str", in_("DS_S", ["a", "bb"]), n))
    out.append(T("nvl_ds_int", binop("nvl", "DS_4", 0), n))
    out.append(T("nvl_ds_multi", binop("nvl", "DS_1", 7), n))
    out.append(T("nvl_ds_str", binop("nvl", "DS_S", const("z")), n))
    out.append(T("if_ds_ds", if_(binop(">", member("DS_4", "Me_1"), 0), "DS_4", "DS_5"), n))
    out.append(T("if_ds_sc", if_(binop(">", member("DS_4", "Me_1"), 0), "DS_4", 7), n))
    out.append(T("if_sc_ds", if_(binop("=", member("DS_4", "Me_1"), 1), 7, "DS_5"), n))
    out.append(T("if_boolds", if_("DS_B", "DS_4", "DS_5"), n))
    out.append(T("memb_plus", binop("+", member("DS_1", "Me_1"), member("DS_2", "Me_1")), n))
    out.append(T("memb_cmp", binop("<", member("DS_1", "Me_2"), member("DS_2", "Me_2")), n))
    out.append(T("memb_id", member("DS_1", "Id_2"), n))
    # component level (inside calc): component o component, component o scalar
    for op in ARITH + ["mod"]:
        out.append(T("calc_cc_%s" % sn(op), calc("DS_X", [(None, "Me_9", binop(op, "Me_1", "Me_1" if op == "mod" else "Me_2"))]), n))
        out.append(T("calc_cs_%s" % sn(op), calc("DS_X", [(None, "Me_9", binop(op, "Me_1", 2))]), n))
        out.append(T("calc_sc_%s" % sn(op), calc("DS_X", [(None, "Me_9", binop(op, 7, "Me_1"))]), n))
    for op in CMPS:
        out.append(T("calc_cc_%s" % sn(op), calc("DS_X", [(None, "Me_9", binop(op, "Me_1", "Me_2"))]), n))
        out.append(T("calc_cs_%s_str" % sn(op), calc("DS_X", [(None, "Me_9", binop(op, "Me_4", const("b")))]), n))
    for op in ("and", "or", "xor"):
        out.append(T("calc_cc_%s" % op, calc("DS_X", [(None, "Me_9", binop(op, "Me_3", binop(">", "Me_1", 0)))]), n))
    out.append(T("calc_not", calc("DS_X", [(None, "Me_9", unop("not", "Me_3"))]), n))
    out.append(T("calc_isnull", calc("DS_X", [(None, "Me_9", unop("isnull", "Me_2"))]), n))
    out.append(T("calc_nvl", calc("DS_X", [(None, "Me_9", binop("nvl", "Me_1", 0))]), n))
    out.append(T("calc_nvl_cc", calc("DS_X", [(None, "Me_9", binop("nvl", "Me_2", "Me_1"))]), n))
    out.append(T("calc_between", calc("DS_X", [(None, "Me_9", between("Me_1", 0, "Me_2"))]), n))
    out.append(T("calc_in", calc("DS_X", [(None, "Me_9", in_("Me_1", [1, 3]))]), n))
    out.append(T("calc_notin_str", calc("DS_X", [(None, "Me_9", in_("Me_4", ["a", "b"], neg=True))]), n))
    out.append(T("calc_if", calc("DS_X", [(None, "Me_9", if_(binop(">", "Me_1", 0), "Me_1", "Me_2"))]), n))
    out.append(T("calc_if_boolcomp", calc("DS_X", [(None, "Me_9", if_("Me_3", 1, 0))]), n))
    out.append(T("calc_case", calc("DS_X", [(None, "Me_9", case([(binop(">", "Me_1", 0), 1), (binop(">", "Me_1", 5), 2)], 0))]), n))
    out.append(T("calc_concat", calc("DS_X", [(None, "Me_9", binop("||", "Me_4", "Id_2"))]), n))
    out.append(T("calc_abs_neg", calc("DS_X", [(None, "Me_9", unop("abs", unop("-", "Me_2")))]), n))
    out.append(T("calc_ceil", calc("DS_X", [(None, "Me_9", unop("ceil", "Me_2"))]), n))
    out.append(T("calc_floor", calc("DS_X", [(None, "Me_9", unop("floor", "Me_2"))]), n))
    out.append(T("substr_ds_2_1", paramop("substr", ["DS_S"], [2, 1]), n))
    out.append(T("substr_ds_1", paramop("substr", ["DS_S"], [1]), n))
    out.append(T("substr_ds_default_len", paramop("substr", ["DS_S"], [2, optional()]), n))
    out.append(T("calc_substr", calc("DS_X", [(None, "Me_9", paramop("substr", ["Me_4"], [1, 1]))]), n))
    out.append(T("calc_substr_concat", calc("DS_X", [(None, "Me_9", binop("||", paramop("substr", ["Me_4"], [2]), "Me_4"))]), n))
    out.append(T("instr_ds", paramop("instr", ["DS_S"], [const("a")]), n))
    out.append(T("instr_ds_start2", paramop("instr", ["DS_S"], [const("a"), 2]), n))
    out.append(T("instr_ds_start3_pat2", paramop("instr", ["DS_S"], [const("ab"), 3, 1]), n, opts={"str_maxlen": 4}))
    out.append(T("calc_instr_start2", calc("DS_X", [(None, "Me_9", paramop("instr", ["Me_4"], [const("b"), 2]))]), n))
    out.append(T("replace_ds", paramop("replace", ["DS_S"], [const("a"), const("b")]), n))
    out.append(T("replace_ds_default", paramop("replace", ["DS_S"], [const("a")]), n))
    out.append(T("calc_replace_comp", calc("DS_X", [(None, "Me_9", paramop("replace", ["Me_4"], [const("a"), "Id_2"]))]), n))
    out.append(T("calc_len_upper", calc("DS_X", [(None, "Me_9", unop("length", unop("upper", "Me_4")))]), n))
    out.append(T("calc_div_expr", calc("DS_X", [(None, "Me_9", binop("/", "Me_2", binop("-", "Me_1", 2)))]), n))
    # depth 2 compositions
    out.append(T("d2_add_mul", binop("*", par(binop("+", "DS_1", "DS_2")), "DS_3"), n))
    out.append(T("d2_sub_scalar", binop("-", binop("*", "DS_1", 2), "DS_2"), n))
    out.append(T("d2_cmp_of_sum", binop(">", binop("+", "DS_4", "DS_5"), 3), n))
    out.append(T("d2_nvl_add", binop("+", binop("nvl", "DS_4", 0), "DS_5"), n))
    out.append(T("d2_not_cmp", unop("not", binop("<", "DS_4", "DS_5")), n))
    out.append(T("d2_bool_of_cmps", binop("and", binop(">", "DS_4", 1), binop("<", "DS_5", 1)), n))
    out.append(T("d2_bool_of_cmps_stmt", binop("and", "DS_a", "DS_b"), n,
                 extra_stmts=[assign("DS_a", binop(">", "DS_4", 1)), assign("DS_b", binop("<", "DS_5", 1))]))
    out.append(T("d2_wide_left_q", binop("+", par(binop("+", "DS_1", "DS_3")), "DS_2"), n))
    out.append(T("d2_wide_right_q", binop("-", "DS_2", par(binop("*", "DS_3", "DS_1"))), n))
    out.append(T("d2_narrow_mid_q", binop("+", par(binop("+", "DS_3", "DS_1")), "DS_2"), n))
    if tier != "quick":
        for a, b in itertools.product(["+", "-", "*"], repeat=2):
            out.append(T("d2_%s_%s_l" % (sn(a), sn(b)), binop(b, par(binop(a, "DS_1", "DS_2")), "DS_3"), n))
            out.append(T("d2_%s_%s_r" % (sn(a), sn(b)), binop(b, "DS_3", par(binop(a, "DS_1", "DS_2"))), n))
            out.append(T("d2_%s_%s_wide_left" % (sn(a), sn(b)), binop(b, par(binop(a, "DS_1", "DS_3")), "DS_2"), n))
        for op in CMPS:
            out.append(T("d2_cmp_%s_abs" % sn(op), binop(op, unop("abs", "DS_4"), "DS_5"), n))
        out.append(T("d3_chain", binop("+", binop("+", binop("+", "DS_4", "DS_5"), "DS_6"), 1), n))
        out.append(T("d2_if_of_sum", if_(binop(">", member("DS_4", "Me_1"), 0), binop("+", "DS_4", "DS_5"), "DS_5"), n))
    return out


# ------------------------------------------------------------------------------------------ C02 clauses
def c02(tier):
    n = 2 if tier == "quick" else 3
    out = []
    cond1 = binop(">", "Me_1", 1)
    cond2 = binop("and", binop(">", "Me_1", 0), binop("<", "Me_2", 5))
    cond3 = binop("or", unop("isnull", "Me_1"), binop("=", "Id_2", const("a")))
    out.append(T("calc_attr_back_to_measure_unpivot", unpivot(calc(calc("DS_1", [("attribute", "Me_2", "Me_2")]), [("measure", "Me_2", binop("*", "Me_2", 10))]), "Id_9", "Me_9"), n))
    out.append(T("calc_attr_then_other_statement", unpivot("DS_1", "Id_9", "Me_9"), n,
                 extra_stmts=[assign("DS_a", filter_(calc("DS_1", [("attribute", "Me_2", "Me_2")]), binop(">", "Me_1", 0)))], check=["DS_a", "DS_r"]))
    out.append(T("calc_new_attr_then_unpivot", unpivot(calc("DS_1", [("attribute", "At_9", "Me_2")]), "Id_9", "Me_9"), n))
    out.append(T("calc_identifier_keep_rename", rename(keep(calc("DS_3", [("identifier", "Id_3", "Id_1")]), ["Me_1"]), [("Id_3", "Id_4")]), n))
    out.append(T("unpivot_two_measures", unpivot("DS_1", "Id_9", "Me_9"), n))
    out.append(T("unpivot_one_measure", unpivot("DS_4", "Id_9", "Me_9"), n))
    out.append(T("unpivot_then_filter", filter_(unpivot("DS_1", "Id_9", "Me_9"), binop(">", "Me_9", 0)), n))
    out.append(T("filter_then_unpivot", unpivot(filter_("DS_1", cond1), "Id_9", "Me_9"), n))
    out.append(T("filter_gt", filter_("DS_1", cond1), n))
    out.append(T("filter_and", filter_("DS_1", cond2), n))
    out.append(T("filter_or_isnull", filter_("DS_1", cond3), n))
    out.append(T("filter_boolcomp", filter_("DS_X", "Me_3"), n))
    out.append(T("filter_not", filter_("DS_X", unop("not", "Me_3")), n))
    out.append(T("filter_id", filter_("DS_1", binop("=", "Id_1", 1)), n))
    out.append(T("filter_in", filter_("DS_1", in_("Me_1", [1, 2])), n))
    out.append(T("filter_between", filter_("DS_1", between("Me_2", 0, "Me_1")), n))
    out.append(T("calc_new", calc("DS_1", [("measure", "Me_3", binop("+", "Me_1", "Me_2"))]), n))
    out.append(T("calc_overwrite", calc("DS_1", [("measure", "Me_1", binop("*", "Me_1", 2))]), n))
    out.append(T("calc_two", calc("DS_1", [("measure", "Me_3", binop("+", "Me_1", 1)), ("measure", "Me_4", binop("-", "Me_2", "Me_1"))]), n))
    out.append(T("calc_attr", calc("DS_1", [("attribute", "At_1", binop("||", "Id_2", const("x")))]), n))
    out.append(T("calc_const", calc("DS_1", [("measure", "Me_3", const(7))]), n))
    out.append(T("calc_swap", calc("DS_1", [("measure", "Me_1", "Me_2"), ("measure", "Me_2", "Me_1")]), n))
    out.append(T("keep_one", keep("DS_1", ["Me_1"]), n))
    out.append(T("keep_two", keep("DS_X", ["Me_2", "Me_4"]), n))
    out.append(T("drop_one", drop("DS_1", ["Me_1"]), n))
    out.append(T("drop_two", drop("DS_X", ["Me_1", "Me_3"]), n))
    out.append(T("rename_measure", rename("DS_1", [("Me_1", "Me_9")]), n))
    out.append(T("rename_id", rename("DS_1", [("Id_2", "Id_9")]), n))
    out.append(T("rename_swap", rename("DS_1", [("Me_1", "Me_2"), ("Me_2", "Me_1")]), n))
    out.append(T("sub_one", sub("DS_1", [("Id_1", 1)]), n))
    out.append(T("sub_str", sub("DS_1", [("Id_2", "a")]), n))
    out.append(T("sub_two", sub("DS_7", [("Id_1", 1), ("Id_2", "a")]), n))
    # chains of two
    base = {
        "filter": lambda d: filter_(d, cond1),
        "calc": lambda d: calc(d, [("measure", "Me_3", binop("+", "Me_1", "Me_2"))]),
        "keep": lambda d: keep(d, ["Me_1"]),
        "drop": lambda d: drop(d, ["Me_2"]),
        "rename": lambda d: rename(d, [("Me_1", "Me_9")]),
        "sub": lambda d: sub(d, [("Id_2", "a")]),
    }
    second = dict(base)
    second["filter_after_rename"] = lambda d: filter_(d, binop(">", "Me_9", 1))
    for a, b in itertools.permutations(list(base), 2):
        # skip chains that are not well-typed (second clause refers to a component removed/renamed by the first)
        if a == "keep" and b in ("calc", "drop"):
            continue
        if a == "drop" and b == "calc":
            continue
        if a == "rename" and b in ("filter", "calc", "keep", "rename"):
            continue
        out.append(T("chain_%s_%s" % (a, b), base[b](base[a]("DS_1")), n))
    out.append(T("chain_rename_filter9", filter_(rename("DS_1", [("Me_1", "Me_9")]), binop(">", "Me_9", 1)), n))
    rid = lambda: rename("DS_1", [("Id_2", "Id_9")])  # noqa: E731
    out.append(T("chain_renameid_keep", keep(rid(), ["Me_1"]), n))
    out.append(T("chain_renameid_drop", drop(rid(), ["Me_1"]), n))
    out.append(T("chain_renameid_filter", filter_(rid(), binop("=", "Id_9", const("a"))), n))
    out.append(T("chain_renameid_calc", calc(rid(), [("measure", "Me_3", binop("||", "Id_9", const("x")))]), n))
    out.append(T("chain_renameid_sub", sub(rid(), [("Id_9", "a")]), n))
    out.append(T("chain_renameid_agg", agg("sum", rid(), "group by", ["Id_9"]), n))
    out.append(T("chain_calcattr_keep", keep(calc("DS_1", [("attribute", "At_1", binop("+", "Me_1", 1))]), ["Me_1"]), n))
    out.append(T("chain_calcattr_rename_keep", keep(rename(calc("DS_1", [("attribute", "At_1", binop("+", "Me_1", 1))]), [("At_1", "At_2")]), ["At_2"]), n))
    out.append(T("chain_calc_filter_new", filter_(calc("DS_1", [("measure", "Me_3", binop("+", "Me_1", "Me_2"))]), binop(">", "Me_3", 2)), n))
    out.append(T("chain_calc_keep_new", keep(calc("DS_1", [("measure", "Me_3", binop("+", "Me_1", "Me_2"))]), ["Me_3"]), n))
    # clause on a join result, including a computed component that shares its name with qualified ones
    j = join("inner_join", [("DS_1", "d1"), ("DS_2", "d2")])
    jc = join("inner_join", [("DS_4", "d1"), ("DS_5", "d2")])
    J = lambda: join("inner_join", [("DS_1", "d1"), ("DS_J", "dj")])  # noqa: E731
    out.append(T("join_then_filter", jbody(J(), lambda d: filter_(d, binop(">", "Me_3", "Me_1"))), n))
    out.append(T("join_then_calc", jbody(J(), lambda d: calc(d, [("measure", "Me_9", binop("+", "Me_3", "Me_1"))])), n))
    out.append(T("join_then_keep", jbody(J(), lambda d: keep(d, ["Me_4"])), n))
    JC = lambda: join("inner_join", [("DS_4", "d1"), ("DS_5", "d2")])  # noqa: E731
    resolve = lambda d: calc(d, [("measure", "Me_1", binop("+", member("d1", "Me_1"), member("d2", "Me_1")))])  # noqa: E731
    # (AST-level only: a join+calc whose qualified columns are still visible to the next clause - isLast is never set)
    JN = lambda: join("inner_join", [("DS_4", "d1"), ("DS_5", "d2")], last=False)  # noqa: E731
    out.append(T("joincalc_then_filter_bare", filter_(resolve(JN()), binop(">", "Me_1", 1)), n))
    out.append(T("joincalc_then_calc_bare", calc(resolve(JN()), [("measure", "Me_9", binop("*", "Me_1", 2))]), n))
    out.append(T("joincalc_keep_qualified", jbody(JC(), resolve, lambda d: keep(d, ["Me_1"])), n))
    if tier != "quick":
        for a, b, c in itertools.permutations(["filter", "calc", "drop", "sub"], 3):
            if (a, b) == ("drop", "calc") or (b, c) == ("drop", "calc") or (a, c) == ("drop", "calc"):
                continue
            out.append(T("chain3_%s_%s_%s" % (a, b, c), base[c](base[b](base[a]("DS_1"))), n))
    return out


# ------------------------------------------------------------------------------------------ C03 aggregations
AGGS = ["sum", "avg", "count", "min", "max", "median", "stddev_pop", "stddev_samp", "var_pop", "var_samp"]


def c03(tier):
    n = 3 if tier == "quick" else 4
    out = []
    ops = AGGS if tier != "quick" else ["sum", "avg", "count", "min", "max", "median", "var_pop", "var_samp"]
    for op in ops:
        nn = n if op not in ("median", "stddev_pop", "stddev_samp", "var_pop", "var_samp") else min(n, 3)
        out.append(T("%s_group_by" % op, agg(op, "DS_1", "group by", ["Id_1"]), nn))
        out.append(T("%s_group_except" % op, agg(op, "DS_1", "group except", ["Id_1"]), nn))
        out.append(T("%s_nogroup" % op, agg(op, "DS_4"), nn))
        out.append(T("%s_group_all_ids" % op, agg(op, "DS_4", "group by", ["Id_1", "Id_2"]), nn))
        out.append(T("%s_aggr_clause" % op, aggr("DS_1", [("measure", "Me_9", op, "Me_1")], "group by", ["Id_1"]), nn))
    for op in ("min", "max"):
        out.append(T("%s_str" % op, agg(op, "DS_7S", "group by", ["Id_1"]), n, structs=POOL + [S("DS_7S", ID2, [("Me_1", "String")])]))
    out.append(T("sum_three_ids", agg("sum", "DS_7", "group by", ["Id_1", "Id_3"]), n))
    for op in ("sum", "max", "avg"):
        out.append(T("%s_group_except_all_ids" % op, agg(op, "DS_4", "group except", ["Id_1", "Id_2"]), n))
    out.append(T("sum_group_except_all_having", agg("sum", "DS_4", "group except", ["Id_1", "Id_2"], having(binop(">", agg("max", "Me_1"), 1))), n))
    out.append(T("aggr_group_except_all", aggr("DS_4", [("measure", "Me_9", "sum", "Me_1")], "group except", ["Id_1", "Id_2"]), n))
    out.append(T("sum_three_ids_except", agg("sum", "DS_7", "group except", ["Id_2"]), n))
    out.append(T("having_sum", agg("sum", "DS_4", "group by", ["Id_1"], having(binop(">", agg("sum", "Me_1"), 3))), n))
    out.append(T("having_count", agg("max", "DS_4", "group by", ["Id_1"], having(binop(">", agg("count"), 1))), n))
    out.append(T("having_avg_lt", agg("min", "DS_4", "group except", ["Id_1"], having(binop("<", agg("avg", "Me_1"), 2))), n))
    out.append(T("aggr_two", aggr("DS_1", [("measure", "Me_8", "sum", "Me_1"), ("measure", "Me_9", "max", "Me_2")], "group by", ["Id_1"]), n))
    out.append(T("aggr_nogroup", aggr("DS_1", [("measure", "Me_9", "sum", "Me_2")]), n))
    out.append(T("aggr_count_star", aggr("DS_1", [("measure", "Me_9", "count", None)], "group by", ["Id_1"]), n))
    out.append(T("aggr_having", aggr("DS_1", [("measure", "Me_9", "sum", "Me_1")], "group by", ["Id_1"], having(binop(">", agg("count"), 1))), n))
    out.append(T("sum_of_filtered", agg("sum", filter_("DS_1", binop(">", "Me_1", 0)), "group by", ["Id_1"]), n))
    out.append(T("sum_of_sum", agg("sum", par(binop("+", "DS_1", "DS_2")), "group by", ["Id_2"]), 2))
    return out


# ------------------------------------------------------------------------------------------ C04 joins
def c04(tier):
    n = 2 if tier == "quick" else 3
    out = []
    for op in ("inner_join", "left_join"):
        J = lambda op=op: join(op, [("DS_1", "d1"), ("DS_J", "dj")])  # noqa: E731
        JC = lambda op=op: join(op, [("DS_4", "a"), ("DS_5", "b")])  # noqa: E731
        out.append(T("%s_subset" % op, J(), n))
        out.append(T("%s_equal_ids" % op, join(op, [("DS_1", "d1"), ("DS_K", "dk")]), n))
        out.append(T("%s_noalias" % op, join(op, ["DS_1", "DS_J"]), n))
        out.append(T("%s_using" % op, join(op, [("DS_1", "d1"), ("DS_J", "dj")], using=["Id_1"]), n))
        out.append(T("%s_three" % op, join(op, [("DS_1", "d1"), ("DS_K", "dk"), ("DS_J", "dj")]), 2))
        out.append(T("%s_filter" % op, jbody(J(), lambda d: filter_(d, binop(">", "Me_3", 0))), n))
        out.append(T("%s_calc" % op, jbody(J(), lambda d: calc(d, [("measure", "Me_9", binop("+", "Me_1", "Me_3"))])), n))
        out.append(T("%s_keep" % op, jbody(J(), lambda d: keep(d, ["Me_1", "Me_4"])), n))
        out.append(T("%s_drop" % op, jbody(J(), lambda d: drop(d, ["Me_2"])), n))
        out.append(T("%s_rename" % op, jbody(J(), lambda d: rename(d, [("Me_3", "Me_9")])), n))
        out.append(T("%s_filter_calc_keep" % op, jbody(J(), lambda d: filter_(d, binop(">", "Me_3", 0)),
                                                     lambda d: calc(d, [("measure", "Me_9", binop("+", "Me_1", "Me_3"))]), lambda d: keep(d, ["Me_9"])), n))
        out.append(T("%s_conflict_calc" % op, jbody(JC(), lambda d: calc(d, [("measure", "Me_9", binop("+", member("a", "Me_1"), member("b", "Me_1")))]),
                                                  lambda d: keep(d, ["Me_9"])), n))
        out.append(T("%s_conflict_rename" % op, jbody(JC(), lambda d: rename(d, [("a#Me_1", "Me_8"), ("b#Me_1", "Me_9")])), n))
    out.append(T("inner_three_narrow_first", join("inner_join", [("DS_6", "a"), ("DS_K", "b"), ("DS_7", "c")]), 2, structs=POOL[:-1] + [S("DS_7", ID2, [("Me_7", "Integer")])]))
    out.append(T("inner_three_wide_first", join("inner_join", [("DS_K", "b"), ("DS_6", "a"), ("DS_J", "c")]), 2))
    out.append(T("full_equal_ids", join("full_join", [("DS_1", "d1"), ("DS_K", "dk")]), n))
    out.append(T("full_conflict_rename", jbody(join("full_join", [("DS_4", "a"), ("DS_5", "b")]), lambda d: rename(d, [("a#Me_1", "Me_8"), ("b#Me_1", "Me_9")])), n))
    out.append(T("full_three", join("full_join", [("DS_4", "a"), ("DS_K", "b"), ("DS_Bm", "c")]), 2, structs=POOL + [S("DS_Bm", ID2, [("Me_6", "Boolean")])]))
    out.append(T("cross_rename", jbody(join("cross_join", [("DS_6", "a"), ("DS_J", "b")]), lambda d: rename(d, [("a#Id_1", "Id_a"), ("b#Id_1", "Id_b")])), n))
    out.append(T("inner_aggr", jbody(join("inner_join", [("DS_1", "d1"), ("DS_J", "dj")]), lambda d: aggr(d, [("measure", "Me_9", "sum", "Me_3")], "group by", ["Id_1"])), n))
    return out


# ------------------------------------------------------------------------------------------ C05 set operators
def c05(tier):
    n = 2
    out = []
    for op in ("union", "intersect", "setdiff", "symdiff"):
        out.append(T("%s_two" % op, setop(op, ["DS_1", "DS_2"]), n if tier == "quick" else 3))
        out.append(T("%s_two_mono" % op, setop(op, ["DS_4", "DS_5"]), 3))
        out.append(T("%s_two_noid" % op, setop(op, ["DS_B", "DS_B2"]), n))
    for op in ("union", "intersect"):
        out.append(T("%s_three" % op, setop(op, ["DS_4", "DS_5", "DS_4b"]), 2, structs=POOL + [S("DS_4b", ID2, [("Me_1", "Integer")])]))
        out.append(T("%s_four" % op, setop(op, ["DS_4", "DS_5", "DS_4b", "DS_4c"]), 2,
                     structs=POOL + [S("DS_4b", ID2, [("Me_1", "Integer")]), S("DS_4c", ID2, [("Me_1", "Integer")])]))
    # exists_in: same identifiers, right operand with fewer identifiers, each retain option, nested operand
    for ret, tag in ((None, "plain"), (True, "true"), (False, "false"), ("all", "all")):
        out.append(T("exists_in_%s" % tag, exists_in("DS_4", "DS_5", ret), 2))
        out.append(T("exists_in_narrow_right_%s" % tag, exists_in("DS_4", "DS_6", ret), 2))
    out.append(T("exists_in_of_filter", exists_in("DS_4", filter_("DS_5", binop(">", "Me_1", 0))), 2))
    out.append(T("exists_in_then_filter", filter_(exists_in("DS_4", "DS_5", "all"), "bool_var"), 2))
    MF = POOL + [structure("DS_m1", [("Me_1", "Integer", M, True), ("Id_1", "Integer", I, False), ("Id_2", "String", I, False)]),
                 structure("DS_m2", [("Me_1", "Integer", M, True), ("Id_1", "Integer", I, False), ("Id_2", "String", I, False)])]
    for op in ("union", "intersect", "setdiff", "symdiff"):
        out.append(T("%s_measure_declared_first" % op, setop(op, ["DS_m1", "DS_m2"]), 2, structs=MF))
    out.append(T("exists_in_measure_declared_first", exists_in("DS_m1", "DS_m2", "all"), 2, structs=MF))
    out.append(T("union_self", setop("union", ["DS_4", "DS_4"]), 2))
    out.append(T("union_of_filter", setop("union", [filter_("DS_4", binop(">", "Me_1", 0)), "DS_5"]), 2))
    out.append(T("setdiff_of_union", setop("setdiff", [setop("union", ["DS_4", "DS_5"]), "DS_4b"]), 2, structs=POOL + [S("DS_4b", ID2, [("Me_1", "Integer")])]))
    out.append(T("union_reordered_cols", setop("union", ["DS_1", "DS_1r"]), 2,
                 structs=POOL + [structure("DS_1r", [("Id_1", "Integer", I, False), ("Id_2", "String", I, False), ("Me_2", "Number", M, True), ("Me_1", "Integer", M, True)])]))
    return out


def all_engine_a(tier, pids=("c01", "c02", "c03", "c04", "c05")):
    """templates of the behavioural properties, ids prefixed with their property (used by C10 / C33)"""
    out = []
    g = globals()
    for pid in pids:
        if pid not in g:
            continue
        for t in g[pid](tier):
            t = dict(t)
            t["id"] = pid.upper() + "." + t["id"]
            out.append(t)
    return out


def _light(ts):
    """drop the calendar-heavy shards (week / no-period interval shapes): their SQL is the same as the other shards'"""
    return [t for t in ts if (t.get("opts") or {}).get("iv_class") not in ("W", "X1", "X2", "X3")]


def c10(tier):
    return _light(all_engine_a(tier, ("c01", "c02", "c03", "c04", "c05", "c06", "c07", "c28", "c09")))


def c33(tier):
    return _light(all_engine_a(tier, ("c01", "c02", "c03", "c04", "c05", "c06", "c07", "c28", "c09")))


# ------------------------------------------------------------------------------------------ C28 viral attributes
from vt.astb import viral_def  # noqa: E402

VA = "Viral Attribute"


def _vstructs(vt):
    return [
        structure("DS_V1", [("Id_1", "Integer", I, False), ("Id_2", "String", I, False), ("Me_1", "Integer", M, True), ("At_1", vt, VA, True)]),
        structure("DS_V2", [("Id_1", "Integer", I, False), ("Id_2", "String", I, False), ("Me_1", "Integer", M, True), ("At_1", vt, VA, True)]),
        structure("DS_V3", [("Id_1", "Integer", I, False), ("Me_3", "Integer", M, True), ("At_1", vt, VA, True)]),
        structure("DS_V4", [("Id_1", "Integer", I, False), ("Id_2", "String", I, False), ("Me_4", "Integer", M, True)]),
    ]


RULES = {
    # associative/commutative table, pair clause first
    "enum_pair_first": (lambda: viral_def("vp1", "At_1", enumerated=[(["a", "b"], "c"), (["a"], "a"), (["b"], "b")], default="c"), "String"),
    # pair clause declared AFTER the single-value clauses (pair must still win)
    "enum_pair_last": (lambda: viral_def("vp1", "At_1", enumerated=[(["a"], "a"), (["b"], "b"), (["a", "b"], "c")], default="b"), "String"),
    # non-associative table
    "enum_nonassoc": (lambda: viral_def("vp1", "At_1", enumerated=[(["a", "b"], "c"), (["c"], "a"), (["a"], "b")], default="c"), "String"),
    "enum_default_only": (lambda: viral_def("vp1", "At_1", enumerated=[], default="a"), "String"),
    # clauses on the null value: alone and paired
    "enum_null_clause": (lambda: viral_def("vp1", "At_1", enumerated=[([None], "c"), (["a"], "b")], default="a"), "String"),
    "enum_null_pair": (lambda: viral_def("vp1", "At_1", enumerated=[(["a", None], "c"), (["b"], "b")], default="a"), "String"),
    "agg_min": (lambda: viral_def("vp1", "At_1", aggregate="min"), "Integer"),
    "agg_max": (lambda: viral_def("vp1", "At_1", aggregate="max"), "Integer"),
    "agg_sum": (lambda: viral_def("vp1", "At_1", aggregate="sum"), "Integer"),
    "agg_avg": (lambda: viral_def("vp1", "At_1", aggregate="avg"), "Number"),
}


def c28(tier):
    n = 2 if tier == "quick" else 3
    out = []
    rules = list(RULES) if tier != "quick" else ["enum_pair_first", "enum_pair_last", "enum_nonassoc", "enum_null_clause", "enum_null_pair", "agg_min", "agg_max", "agg_sum", "agg_avg"]
    for rn in rules:
        mk, vt = RULES[rn]
        st = _vstructs(vt)

        def V(tid, expr, nrows=n, mk=mk, st=st, rn=rn):
            return dict(id="%s_%s" % (rn, tid), ast=start(mk(), assign("DS_r", expr)), structs=st, nrows=nrows)
        out.append(V("dsds_plus", binop("+", "DS_V1", "DS_V2")))
        out.append(V("dsds_one_side", binop("+", "DS_V1", "DS_V4"))) if False else None
        out.append(V("dssc_plus", binop("+", "DS_V1", 1)))
        out.append(V("unary_abs", unop("abs", "DS_V1")))
        out.append(V("cmp_scalar", binop(">", "DS_V1", 0)))
        out.append(V("agg_sum_group", agg("sum", "DS_V1", "group by", ["Id_1"]), 3))
        out.append(V("agg_max_nogroup", agg("max", "DS_V1"), 3))
        out.append(V("join_inner", join("inner_join", [("DS_V1", "a"), ("DS_V3", "b")])))
        out.append(V("join_left", join("left_join", [("DS_V1", "a"), ("DS_V3", "b")])))
        out.append(V("filter", filter_("DS_V1", binop(">", "Me_1", 0))))
        out.append(V("calc", calc("DS_V1", [("measure", "Me_9", binop("+", "Me_1", 1))])))
        out.append(V("rename", rename("DS_V1", [("Me_1", "Me_9")])))
        out.append(V("assign", var("DS_V1")))
        out.append(V("union", setop("union", ["DS_V1", "DS_V2"])))
        out.append(V("setdiff", setop("setdiff", ["DS_V1", "DS_V2"])))
        out.append(V("if_ds_ds", if_(binop(">", member("DS_V1", "Me_1"), 0), "DS_V1", "DS_V2")))
        # compositions: the viral value of the inner result must travel through the outer operator
        if tier != "quick" or rn in ("enum_pair_last", "agg_max"):
            out.append(V("d2_plus_plus", binop("+", par(binop("+", "DS_V1", "DS_V2")), "DS_V1")))
            out.append(V("agg_of_sum", agg("sum", par(binop("+", "DS_V1", "DS_V2")), "group by", ["Id_1"]), 2))
            out.append(V("x_filter_of_sum", filter_(binop("+", "DS_V1", "DS_V2"), binop(">", "Me_1", 0))))
            out.append(V("x_union_of_sum", setop("union", [binop("+", "DS_V1", "DS_V2"), "DS_V1"])))
            out.append(V("x_abs_of_sum", unop("abs", binop("+", "DS_V1", "DS_V2"))))
            out.append(V("x_join_of_sum", join("inner_join", [(binop("+", "DS_V1", "DS_V2"), "a"), ("DS_V3", "b")])))
            out.append(V("x_sum_of_filter", agg("sum", filter_("DS_V1", binop(">", "Me_1", 0)), "group by", ["Id_1"]), 3))
            out.append(V("x_sum_of_union", agg("sum", setop("union", ["DS_V1", "DS_V2"]), "group by", ["Id_1"]), 2))
            out.append(V("x_plus_of_aggs", binop("+", agg("sum", "DS_V1", "group by", ["Id_1"]), agg("sum", "DS_V2", "group by", ["Id_1"])), 2))
            out.append(V("x_calc_of_join", jbody(join("inner_join", [("DS_V1", "a"), ("DS_V3", "b")]), lambda j: calc(j, [("measure", "Me_9", binop("+", "Me_1", "Me_3"))]))))
    return [t for t in out if t is not None]


# ------------------------------------------------------------------------------------------ C06 analytic functions
def c06(tier):
    n = 3 if tier == "quick" else 4
    out = []
    P1 = dict(partition_by=["Id_1"], order_by=[("Id_2", "asc")])
    PD = dict(partition_by=["Id_1"], order_by=[("Id_2", "desc")])
    wins = {
        "default": window("data", -1, "preceding", 0, "current"),
        "all": window("data", -1, "preceding", -1, "following"),
        "p1_cur": window("data", 1, "preceding", 0, "current"),
        "p1_f1": window("data", 1, "preceding", 1, "following"),
        "cur_f1": window("data", 0, "current", 1, "following"),
        "p2_p1": window("data", 2, "preceding", 1, "preceding"),
        "f1_f2": window("data", 1, "following", 2, "following"),
        "cur_unb": window("data", 0, "current", -1, "following"),
    }
    ops = ["sum", "avg", "count", "min", "max", "first_value", "last_value"]
    if tier != "quick":
        ops += ["median", "var_pop", "stddev_samp"]
    for op in ops:
        for wn, w in wins.items():
            if tier == "quick" and op not in ("sum", "first_value", "count") and wn not in ("default", "p1_f1", "p2_p1") and not (op == "last_value" and wn == "all"):
                continue
            nn = min(n, 3) if op in ("median", "var_pop", "stddev_samp") else n
            out.append(T("ds_%s_%s" % (op, wn), analytic(op, "DS_4", win=w, **P1), nn))
        out.append(T("ds_%s_desc" % op, analytic(op, "DS_4", win=wins["p1_cur"], **PD), n))
        out.append(T("calc_%s" % op, calc("DS_4", [("measure", "Me_9", analytic(op, "Me_1", win=wins["default"], **P1))]), n))
    for op in ("lag", "lead"):
        out.append(T("ds_%s_1" % op, analytic(op, "DS_4", params=[1], **P1), n))
        out.append(T("ds_%s_1_default" % op, analytic(op, "DS_4", params=[1, 7], **P1), n))
        out.append(T("calc_%s_2_default" % op, calc("DS_4", [("measure", "Me_9", analytic(op, "Me_1", params=[2, -1], **PD))]), n))
        out.append(T("ds_%s_2_desc" % op, analytic(op, "DS_4", params=[2], **PD), n))
        out.append(T("calc_%s_1" % op, calc("DS_4", [("measure", "Me_9", analytic(op, "Me_1", params=[1], **P1))]), n))
    out.append(T("ds_rank", calc("DS_4", [("measure", "Me_9", analytic("rank", None, partition_by=["Id_1"], order_by=[("Me_1", "asc")]))]), n))
    out.append(T("ds_rank_desc", calc("DS_4", [("measure", "Me_9", analytic("rank", None, partition_by=["Id_1"], order_by=[("Me_1", "desc")]))]), n))
    out.append(T("ds_ratio", analytic("ratio_to_report", "DS_4", partition_by=["Id_1"]), n))
    out.append(T("calc_ratio", calc("DS_4", [("measure", "Me_9", analytic("ratio_to_report", "Me_1", partition_by=["Id_1"]))]), n))
    out.append(T("ds_sum_multi", analytic("sum", "DS_1", win=wins["p1_f1"], **P1), n))
    out.append(T("ds_sum_order_measure", analytic("sum", "DS_4", win=wins["p1_cur"], partition_by=["Id_1"], order_by=[("Me_1", "asc")]), n))
    out.append(T("ds_sum_nopartition", analytic("sum", "DS_6", win=wins["p1_cur"], order_by=[("Id_1", "asc")]), n))
    out.append(T("ds_sum_partition_only", analytic("sum", "DS_4", win=wins["all"], partition_by=["Id_1"]), n))
    out.append(T("ds_sum_range", analytic("sum", "DS_6", win=window("range", 1, "preceding", 1, "following"), order_by=[("Id_1", "asc")]), n))
    out.append(T("ds_sum_range_desc", analytic("sum", "DS_6", win=window("range", 2, "preceding", 0, "current"), order_by=[("Id_1", "desc")]), n))
    out.append(T("ds_count_range_unb", analytic("count", "DS_6", win=window("range", -1, "preceding", 1, "following"), order_by=[("Id_1", "asc")]), n))
    out.append(T("ds_sum_partition_except", analytic("sum", "DS_4", win=wins["default"], partition_by=["Id_2"], partition_op="except", order_by=[("Id_2", "asc")]), n))
    out.append(T("filter_on_analytic", filter_(calc("DS_4", [("measure", "Me_9", analytic("sum", "Me_1", win=wins["default"], **P1))]), binop(">", "Me_9", 1)), n))
    return out


# ------------------------------------------------------------------------------------------ C07 validation / hierarchy
from vt.astb import check, check_datapoint, dpruleset, hrop, hruleset  # noqa: E402


def c07(tier):
    n = 2 if tier == "quick" else 3
    out = []

    def TS(tid, stmts, nrows=n, **kw):
        d = dict(id=tid, ast=start(*stmts), structs=POOL, nrows=nrows)
        d.update(kw)
        return d
    # check
    out.append(TS("check_all", [assign("DS_r", check(binop(">", "DS_4", "DS_5")))]))
    out.append(TS("check_invalid", [assign("DS_r", check(binop(">", "DS_4", "DS_5"), invalid=True))]))
    out.append(TS("check_codes", [assign("DS_r", check(binop(">", "DS_4", 1), error_code="E1", error_level=2))]))
    out.append(TS("check_codes_invalid", [assign("DS_r", check(binop("<=", "DS_4", "DS_5"), error_code="E1", error_level=2, invalid=True))]))
    out.append(TS("check_imbalance", [assign("DS_r", check(binop(">=", "DS_4", "DS_5"), error_code="E1", error_level=3, imbalance=binop("-", "DS_4", "DS_5")))]))
    out.append(TS("check_imbalance_invalid", [assign("DS_r", check(binop("=", "DS_4", "DS_5"), imbalance=binop("-", "DS_4", "DS_5"), invalid=True))]))
    out.append(TS("check_bool_ds", [assign("DS_r", check("DS_B", error_code="E9"))]))
    # check_datapoint
    dpr = lambda: dpruleset("DPR_1", ["Me_1", "Me_2"], [("r1", binop(">", "Me_1", 0), "E1", 1), ("r2", ("when", binop(">", "Me_1", 5), binop("<", "Me_2", 10)), None, None)])  # noqa: E731
    dpr1 = lambda: dpruleset("DPR_1", ["Me_1", "Me_2"], [(None, binop(">=", "Me_2", "Me_1"), "bad", 5)])  # noqa: E731
    for o in (None, "invalid", "all", "all_measures"):
        out.append(TS("dp_two_rules_%s" % o, [dpr(), assign("DS_r", check_datapoint("DS_1", "DPR_1", o))]))
        out.append(TS("dp_unnamed_%s" % o, [dpr1(), assign("DS_r", check_datapoint("DS_1", "DPR_1", o))]))
    out.append(TS("dp_when_null", [dpruleset("DPR_1", ["Me_1", "Me_2"], [("r1", ("when", unop("isnull", "Me_1"), binop(">", "Me_2", 0)), "E", 1)]),
                                   assign("DS_r", check_datapoint("DS_1", "DPR_1", "all"))]))
    out.append(TS("dp_bool_ops", [dpruleset("DPR_1", ["Me_1", "Me_2"], [("r1", binop("or", binop(">", "Me_1", 0), binop("<", "Me_2", 0)), "E", 1)]),
                                  assign("DS_r", check_datapoint("DS_1", "DPR_1", "invalid"))]))
    # hierarchical rulesets (code items over Id_2; strings are [a-c]{0,2})
    hr_eq = lambda: hruleset("HR_1", "Id_2", [("R1", "a", "=", [("+", "b"), ("+", "c")], "E1", 4)])  # noqa: E731
    hr_two = lambda: hruleset("HR_1", "Id_2", [("R1", "a", "=", [("+", "b"), ("+", "c")], "E1", 4), ("R2", "b", ">", [("+", "c")], None, None)])  # noqa: E731
    hr_minus = lambda: hruleset("HR_1", "Id_2", [("R1", "a", ">=", [("+", "b"), ("-", "c")], "E2", None)])  # noqa: E731
    hr_chain = lambda: hruleset("HR_1", "Id_2", [("R1", "a", "=", [("+", "b"), ("+", "c")], None, None), ("R2", "aa", "=", [("+", "a"), ("+", "b")], None, None)])  # noqa: E731
    for o in (None, "invalid", "all", "all_measures"):
        out.append(TS("ch_eq_%s" % o, [hr_eq(), assign("DS_r", hrop("check_hierarchy", "DS_4", "HR_1", "Id_2", None, None, o))], 3))
    out.append(TS("ch_two_all", [hr_two(), assign("DS_r", hrop("check_hierarchy", "DS_4", "HR_1", "Id_2", None, None, "all"))], 3))
    out.append(TS("ch_minus_invalid", [hr_minus(), assign("DS_r", hrop("check_hierarchy", "DS_4", "HR_1", "Id_2", None, None, "invalid"))], 3))
    for mode in ("non_null", "always_null", "always_zero"):
        out.append(TS("ch_eq_%s_all" % mode, [hr_eq(), assign("DS_r", hrop("check_hierarchy", "DS_4", "HR_1", "Id_2", mode, None, "all"))], 3))
        out.append(TS("ch_eq_%s_invalid" % mode, [hr_eq(), assign("DS_r", hrop("check_hierarchy", "DS_4", "HR_1", "Id_2", mode, None, "invalid"))], 3))
    out.append(TS("h_eq_computed", [hr_eq(), assign("DS_r", hrop("hierarchy", "DS_4", "HR_1", "Id_2"))], 3))
    out.append(TS("h_eq_all", [hr_eq(), assign("DS_r", hrop("hierarchy", "DS_4", "HR_1", "Id_2", None, None, "all"))], 3))
    out.append(TS("h_chain_computed", [hr_chain(), assign("DS_r", hrop("hierarchy", "DS_4", "HR_1", "Id_2"))], 3))
    # chain of two rules under each validation mode (the intermediate item may be absent, present or null) and both outputs
    for mode in ("non_null", "always_null", "always_zero"):
        out.append(TS("h_chain_%s_computed" % mode, [hr_chain(), assign("DS_r", hrop("hierarchy", "DS_4", "HR_1", "Id_2", mode))], 3))
        out.append(TS("h_eq_%s_computed" % mode, [hr_eq(), assign("DS_r", hrop("hierarchy", "DS_4", "HR_1", "Id_2", mode))], 3))
    out.append(TS("h_chain_always_zero_all", [hr_chain(), assign("DS_r", hrop("hierarchy", "DS_4", "HR_1", "Id_2", "always_zero", None, "all"))], 3))
    out.append(TS("h_minus_computed", [hruleset("HR_1", "Id_2", [("R1", "a", "=", [("+", "b"), ("-", "c")], None, None)]), assign("DS_r", hrop("hierarchy", "DS_4", "HR_1", "Id_2"))], 3))
    return out


# ------------------------------------------------------------------------------------------ C08 time operators
from vt.astb import time_agg  # noqa: E402

TIME_STRUCTS = [
    structure("DS_T", [("Id_1", "Integer", I, False), ("Id_2", "Time_Period", I, False), ("Me_1", "Integer", M, True)]),
    structure("DS_M", [("Id_1", "Integer", I, False), ("Me_1", "Time_Period", M, True), ("Me_2", "Date", M, True), ("Me_3", "Time_Period", M, True), ("Me_4", "Date", M, True)]),
]


def c08(tier):
    out = []
    INDS = ["A", "S", "Q", "M", "W", "D"]

    def TT(tid, expr, nrows=2, inds=None, **kw):
        res = []
        for ind in (inds or [None]):
            d = dict(id=tid + ("_" + ind if ind else ""), ast=start(assign("DS_r", expr)), structs=TIME_STRUCTS, nrows=nrows, evaluator="time",
                     timeout_ms=60000 if tier == "quick" else 400000, samples=3)
            d["opts"] = {"years": (1990, 2030) if tier == "quick" else (1900, 2100), "int_bound": 1000}
            if ind:
                d["opts"]["ind"] = ind
            if ind == "D" and tier == "quick":
                d["opts"]["years"] = (2014, 2026)      # daily periods: the year-of-date inversion is the expensive part
            d.update(kw)
            res.append(d)
        out.extend(res)
    C = lambda items: calc("DS_M", [("measure", n, e) for n, e in items])  # noqa: E731
    shifts = [1, -1, 3, -3, 12, 53, -60, 0, -4, -13] if tier != "quick" else [1, -1, 5, 0, -4, -13]
    for n in shifts:
        TT("timeshift_%s" % str(n).replace("-", "m"), binop("timeshift", "DS_T", n), 2, INDS)
    TT("period_indicator_ds", unop("period_indicator", "DS_T"), 2)
    TT("period_indicator_comp", C([("Me_9", unop("period_indicator", "Me_1"))]), 1)
    for op in ("getyear", "getmonth", "dayofmonth", "dayofyear"):
        TT("%s_tp" % op, C([("Me_9", unop(op, "Me_1"))]), 1, INDS)
        TT("%s_date" % op, C([("Me_9", unop(op, "Me_2"))]), 1)
    TT("datediff_tp", C([("Me_9", binop("datediff", "Me_1", "Me_3"))]), 1, INDS)
    TT("datediff_date", C([("Me_9", binop("datediff", "Me_2", "Me_4"))]), 1)
    for unit in ("D", "W", "M", "Q", "S", "A"):
        for n in ((2, -1) if tier == "quick" else (1, 2, -1, 13, -25)):
            TT("dateadd_date_%s_%s" % (unit, str(n).replace("-", "m")), C([("Me_9", paramop("dateadd", ["Me_2"], [n, const(unit)]))]), 1)
    TT("dateadd_tp_D", C([("Me_9", paramop("dateadd", ["Me_1"], [3, const("D")]))]), 1, INDS)
    TT("dateadd_tp_W", C([("Me_9", paramop("dateadd", ["Me_1"], [-2, const("W")]))]), 1, INDS)
    order = ["D", "W", "M", "Q", "S", "A"]
    for tgt in ("A", "S", "Q", "M", "W"):
        finer = [i for i in order if order.index(i) <= order.index(tgt)]
        TT("time_agg_tp_%s" % tgt, C([("Me_9", time_agg("Me_1", tgt))]), 1, finer)
    for tgt in INDS:
        TT("time_agg_date_%s_first" % tgt, C([("Me_9", time_agg("Me_2", tgt, conf="first"))]), 1)
        TT("time_agg_date_%s_last" % tgt, C([("Me_9", time_agg("Me_2", tgt, conf="last"))]), 1)
    TT("flow_to_stock", unop("flow_to_stock", "DS_T"), 3, ["M", "W"])
    TT("stock_to_flow", unop("stock_to_flow", "DS_T"), 3, ["Q", "D"])
    # time operators over the sub-query of another operator, and other operators over a time-operator result
    gt0 = binop(">", "Me_1", 0)
    TT("x_timeshift_of_filter", binop("timeshift", filter_("DS_T", gt0), 1), 2, ["M", "W"])
    TT("x_filter_of_timeshift", filter_(binop("timeshift", "DS_T", -1), gt0), 2, ["Q", "D"])
    TT("x_timeshift_of_sum", binop("timeshift", binop("+", "DS_T", "DS_T"), 1), 2, ["A", "S"])
    TT("x_sum_by_period", agg("sum", "DS_T", "group by", ["Id_2"]), 3, ["M"])
    TT("x_max_of_timeshift", agg("max", binop("timeshift", "DS_T", 1), "group by", ["Id_2"]), 2, ["Q"])
    TT("x_flow_of_filter", unop("flow_to_stock", filter_("DS_T", gt0)), 3, ["M"])
    TT("x_pi_of_timeshift", unop("period_indicator", binop("timeshift", "DS_T", 1)), 2, ["W"])
    TT("x_union_timeshift", setop("union", [binop("timeshift", "DS_T", 1), "DS_T"]), 2, ["M"])
    TT("x_calc_year_plus", C([("Me_9", binop("+", unop("getyear", "Me_1"), unop("getmonth", "Me_2")))]), 1, ["Q"])
    TT("x_filter_on_year", filter_("DS_M", binop(">", unop("getyear", "Me_2"), 2000)), 1)
    for op in ("=", "<>", "<", ">", "<=", ">="):
        TT("cmp_tp_%s" % sn(op), C([("Me_9", binop(op, "Me_1", "Me_3"))]), 1)
        TT("cmp_date_%s" % sn(op), C([("Me_9", binop(op, "Me_2", "Me_4"))]), 1)
    return out


# ------------------------------------------------------------------------------------------ C32 extra error-site templates
def c32(tier):
    """templates added for their runtime-error sites (the pools of C01-C08/C28 are analysed as well)"""
    out = []
    for op in ("sqrt", "ln", "exp", "abs", "-", "ceil", "floor"):
        out.append(T("C32.un_%s_int" % sn(op), unop(op, "DS_6"), 1))
        out.append(T("C32.un_%s_num" % sn(op), unop(op, "DS_N"), 1))
    for op in ("log", "power", "mod", "/", "*", "+", "-"):
        out.append(T("C32.bin_%s_int" % sn(op), binop(op, "DS_4", "DS_5"), 1))
        out.append(T("C32.bin_%s_int_num" % sn(op), binop(op, "DS_6", "DS_N"), 1))
        out.append(T("C32.bin_%s_sc" % sn(op), binop(op, "DS_6", 3), 1))
        out.append(T("C32.calc_%s" % sn(op), calc("DS_1", [("measure", "Me_9", binop(op, "Me_1", "Me_2"))]), 1))
        out.append(T("C32.calc_%s_ii" % sn(op), calc("DS_1", [("measure", "Me_9", binop(op, "Me_1", "Me_1"))]), 1))
    out.append(T("C32.sum_int", agg("sum", "DS_4"), 3))
    out.append(T("C32.sum_group", agg("sum", "DS_4", "group by", ["Id_1"]), 3))
    out.append(T("C32.avg_int", agg("avg", "DS_4"), 3))
    out.append(T("C32.an_sum", analytic("sum", "DS_4", partition_by=["Id_1"], order_by=[("Id_2", "asc")]), 3))
    C = lambda items: calc("DS_M", [("measure", n, e) for n, e in items])  # noqa: E731

    def TT(tid, expr, nrows=1, **kw):
        d = dict(id="C32." + tid, ast=start(assign("DS_r", expr)), structs=TIME_STRUCTS, nrows=nrows, evaluator="time", timeout_ms=60000, samples=3,
                 opts={"years": (1990, 2030)})
        d.update(kw)
        out.append(d)
    for tgt in ("A", "S", "Q", "M", "W"):
        TT("time_agg_tp_%s_any" % tgt, C([("Me_9", time_agg("Me_1", tgt))]))
    for op in ("max", "min"):
        TT("agg_%s_tp" % op, agg(op, keep("DS_M", ["Me_1"])), 2)
        TT("agg_%s_tp_group" % op, agg(op, keep("DS_M", ["Me_1"]), "group by", ["Id_1"]), 2)
    return out


# ------------------------------------------------------------------------------------------ C09 cast
def c09(tier):
    """numeric / boolean / string-rendering conversions at dataset and component level; Integer inputs over the whole int64 range"""
    out = []
    n = 2 if tier == "quick" else 3
    O = {"int64": True}
    SRC = {"Integer": "DS_6", "Number": "DS_N", "Boolean": "DS_B"}
    COMP = {"Integer": "Me_1", "Number": "Me_2", "Boolean": "Me_3"}
    for st, ds in SRC.items():
        for tgt in ("integer", "number", "boolean", "string"):
            out.append(T("ds_%s_%s" % (st.lower(), tgt), cast(ds, tgt), n, opts=dict(O)))
            out.append(T("comp_%s_%s" % (st.lower(), tgt), calc("DS_X", [("measure", "Me_9", cast(COMP[st], tgt))]), n, opts=dict(O)))
    # compositions: a conversion feeding another operator / another conversion
    out.append(T("int_num_int", cast(cast("DS_6", "number"), "integer"), n, opts=dict(O)))
    out.append(T("num_int_num", cast(cast("DS_N", "integer"), "number"), n, opts=dict(O)))
    out.append(T("bool_int_bool", cast(cast("DS_B", "integer"), "boolean"), n, opts=dict(O)))
    out.append(T("int_bool_int", cast(cast("DS_6", "boolean"), "integer"), n, opts=dict(O)))
    out.append(T("cast_then_eq", binop("=", cast("DS_6", "integer"), "DS_6"), n, opts=dict(O)))
    out.append(T("cast_num_plus", binop("+", cast("DS_6", "number"), "DS_N"), n))
    out.append(T("filter_on_cast", filter_("DS_X", cast("Me_1", "boolean")), n, opts=dict(O)))
    out.append(T("calc_cast_overwrite", calc("DS_X", [("measure", "Me_1", cast("Me_2", "integer"))]), n, opts=dict(O)))
    out.append(T("calc_two_casts", calc("DS_X", [("measure", "Me_8", cast("Me_1", "number")), ("measure", "Me_9", cast("Me_3", "integer"))]), n, opts=dict(O)))
    out.append(T("cast_in_if", calc("DS_X", [("measure", "Me_9", if_(cast("Me_1", "boolean"), cast("Me_2", "integer"), "Me_1"))]), n, opts=dict(O)))
    out.append(T("cast_membership", cast(member("DS_1", "Me_2"), "integer"), n, opts=dict(O)))
    out.append(T("cast_after_keep", cast(keep("DS_1", ["Me_1"]), "boolean"), n, opts=dict(O)))
    out.append(T("cast_ident_preserved", cast(keep("DS_7", ["Me_1"]), "number"), n, opts=dict(O)))
    # ---- conversions between the time types (calendar theory; Time = interval of two days)
    yrs = (2015, 2026) if tier == "quick" else (1900, 2100)

    def TT(tid, expr, nrows=1, inds=None, **kw):
        for ind in (inds or [None]):
            d = dict(id=tid + ("_" + ind if ind else ""), ast=start(assign("DS_r", expr)), structs=CAST_TIME_STRUCTS, nrows=nrows, evaluator="time",
                     timeout_ms=60000 if tier == "quick" else 400000, samples=4, opts={"years": yrs})
            if ind:
                d["opts"]["ind"] = ind
            d.update(kw)
            out.append(d)
    CV = lambda items: calc("DS_V", [("measure", n_, e) for n_, e in items])  # noqa: E731
    INDS = ["A", "S", "Q", "M", "W", "D"]
    TT("ds_date_tp", cast("DS_VD", "time_period"), 2)
    TT("comp_date_tp", CV([("Me_9", cast("Me_3", "time_period"))]))
    TT("ds_tp_date", cast("DS_VP", "date"), 2, INDS)
    TT("comp_tp_date", CV([("Me_9", cast("Me_2", "date"))]), 1, INDS)
    TT("ds_time_date", cast("DS_VT", "date"), 2)
    TT("comp_time_date", CV([("Me_9", cast("Me_1", "date"))]))
    # Time -> Time_Period: one shard per shape of the interval (a whole period of one indicator; X* = no period at all)
    classes = ["D", "A", "S", "Q", "M", "W"] + ([] if tier == "quick" else ["X1", "X2", "X3"])
    for k in classes:
        hard = k in ("W", "X1", "X2", "X3")
        o = {"years": (2019, 2022) if hard and tier == "quick" else ((2000, 2030) if hard else yrs), "iv_class": k}
        kw = dict(opts=o, timeout_ms=(100000 if tier == "quick" else 900000) if hard else (60000 if tier == "quick" else 400000))
        TT("ds_time_tp_iv%s" % k, cast("DS_VT", "time_period"), 1, **kw)
        TT("comp_time_tp_iv%s" % k, CV([("Me_9", cast("Me_1", "time_period"))]), **kw)
        TT("time_tp_pi_iv%s" % k, CV([("Me_9", unop("period_indicator", cast("Me_1", "time_period")))]), **kw)
        if not k.startswith("X"):
            kw2 = dict(kw, opts=dict(o, ind=k))
            TT("comp_time_tp_eq_iv%s" % k, CV([("Me_9", binop("=", cast("Me_1", "time_period"), "Me_2"))]), **kw2)
    TT("comp_date_tp_eq", CV([("Me_9", binop("=", cast("Me_3", "time_period"), "Me_2"))]), 1, ["D"])
    TT("comp_tp_date_eq", CV([("Me_9", binop("=", cast("Me_2", "date"), "Me_3"))]), 1, ["D"])
    TT("date_tp_date", cast(cast("DS_VD", "time_period"), "date"), 1)
    for t_, ds_ in (("date", "DS_VD"), ("time_period", "DS_VP"), ("time", "DS_VT")):
        TT("ds_%s_same" % t_, cast(ds_, t_), 2)
    out += nested(tier).get("c09", [])
    return out


CAST_TIME_STRUCTS = [
    structure("DS_V", [("Id_1", "Integer", I, False), ("Me_1", "Time", M, True), ("Me_2", "Time_Period", M, True), ("Me_3", "Date", M, True)]),
    structure("DS_VT", [("Id_1", "Integer", I, False), ("Me_1", "Time", M, True)]),
    structure("DS_VP", [("Id_1", "Integer", I, False), ("Me_1", "Time_Period", M, True)]),
    structure("DS_VD", [("Id_1", "Integer", I, False), ("Me_1", "Date", M, True)]),
]


# ------------------------------------------------------------------------------------------ C29 case-variant names
def c29(tier):
    """names that differ only in letter case are different objects: every context is compared with the (case-sensitive) reference"""
    out = []
    n = 2 if tier == "quick" else 3
    CASE_POOL = POOL + [S("DS_C", ID2, [("Me_1", "Integer"), ("me_1", "Integer")]), S("DS_Ci", [("Id_1", "Integer"), ("id_1", "Integer")], [("Me_1", "Integer")]),
                        S("ds_4", ID2, [("Me_1", "Integer")])]

    def TC(tid, expr, nrows=n, extra=(), **kw):
        d = dict(id=tid, ast=start(*(list(extra) + [assign("DS_r", expr)])), structs=CASE_POOL, nrows=nrows, probe_first=True)
        d.update(kw)
        out.append(d)
    # a component renamed / created with a name that differs only in case from an existing or previous one
    TC("rename_to_variant", rename("DS_4", [("Me_1", "me_1")]))
    TC("rename_variant_then_filter", filter_(rename("DS_4", [("Me_1", "me_1")]), binop(">", "me_1", 0)))
    TC("rename_variant_then_calc", calc(rename("DS_4", [("Me_1", "me_1")]), [("measure", "Me_2", binop("+", "me_1", 1))]))
    TC("rename_variant_then_keep", keep(rename("DS_1", [("Me_1", "me_1")]), ["me_1"]))
    TC("rename_variant_plus", binop("+", rename("DS_4", [("Me_1", "me_1")]), rename("DS_5", [("Me_1", "me_1")])))
    TC("rename_variant_union_first", setop("union", [rename("DS_4", [("Me_1", "me_1")]), rename("DS_5", [("Me_1", "me_1")])]))
    TC("rename_swap_case", rename("DS_1", [("Me_1", "me_2"), ("Me_2", "me_1")]))
    TC("rename_id_variant", rename("DS_4", [("Id_2", "id_2")]))
    TC("aggr_alias_variant", aggr("DS_4", [("measure", "me_1", "sum", "Me_1")], "group by", ["Id_1"]), 3)
    TC("calc_add_variant", calc("DS_4", [("measure", "me_1", binop("+", "Me_1", 1))]))
    TC("calc_add_variant_upper", calc("DS_4", [("measure", "ME_1", binop("*", "Me_1", 2))]))
    TC("calc_then_use_both", calc(calc("DS_4", [("measure", "me_1", binop("+", "Me_1", 1))]), [("measure", "Me_3", binop("-", "me_1", "Me_1"))]))
    TC("unpivot_to_measure_variant", unpivot("DS_1", "Id_9", "me_1"))
    TC("unpivot_to_id_variant", unpivot("DS_1", "id_2", "Me_9"))
    TC("unpivot_to_same_name", unpivot("DS_1", "Id_9", "Me_1"))
    TC("join_rename_variants", jbody(join("inner_join", [("DS_4", "d1"), ("DS_5", "d2")]), lambda j: rename(j, [("d1#Me_1", "me_1"), ("d2#Me_1", "Me_2")])))
    # inputs that already hold case variants
    TC("input_two_variants_copy", var("DS_C"))
    TC("input_two_variants_sum", calc("DS_C", [("measure", "Me_3", binop("+", "Me_1", "me_1"))]))
    TC("input_two_variants_keep", keep("DS_C", ["me_1"]))
    TC("input_id_variants", var("DS_Ci"))
    # datasets / results whose names differ only in case
    TC("result_names_variant", binop("+", "DS_4", 1), extra=[assign("ds_r", binop("*", "DS_4", 2))], check=["DS_r", "ds_r"],
       samples=0)       # (the harness's own DuckDB replica keeps both tables alive: its self-check does not apply to this template)
    TC("input_names_variant", binop("+", "DS_4", var("ds_4")))
    return out


# ------------------------------------------------------------------------------------------ nested expressions split over two statements
def split_variants(tpls, prefix="split_"):
    """For templates whose result expression has a dataset-valued sub-expression as a direct operand, the same computation written as two
    statements (DS_t := <operand>; DS_r := <expression over DS_t>): the intermediate result then goes through the result registry, the
    DAG schedule and the structure bookkeeping between statements."""
    import copy
    import vtlengine.AST as A_
    out = []
    EXPR = (A_.BinOp, A_.UnaryOp, A_.ParamOp, A_.MulOp, A_.RegularAggregation, A_.Aggregation, A_.JoinOp, A_.If, A_.Analytic)

    def has_ds(x, seen=None):
        seen = seen if seen is not None else set()
        if x is None or id(x) in seen:
            return False
        seen.add(id(x))
        if isinstance(x, (list, tuple)):
            return any(has_ds(y, seen) for y in x)
        if isinstance(x, A_.VarID):
            return str(x.value).startswith("DS_")
        if hasattr(x, "__dataclass_fields__"):
            return any(has_ds(getattr(x, f), seen) for f in x.__dataclass_fields__)
        return False

    def _chain(x):
        while isinstance(x, A_.RegularAggregation):
            yield x
            x = x.dataset
        yield x

    for t in tpls:
        ast = copy.deepcopy(t["ast"])
        last = ast.children[-1]
        if not isinstance(last, A_.Assignment):
            continue
        e = last.right
        slot = None
        if isinstance(e, A_.BinOp):
            for f in ("left", "right"):
                if isinstance(getattr(e, f), EXPR) and has_ds(getattr(e, f)):
                    slot = (e, f, None)
                    break
        elif isinstance(e, A_.UnaryOp) and isinstance(e.operand, EXPR) and has_ds(e.operand):
            slot = (e, "operand", None)
        elif isinstance(e, (A_.ParamOp, A_.MulOp)) and e.children:
            for k, ch in enumerate(e.children):
                if isinstance(ch, EXPR) and has_ds(ch):
                    slot = (e, "children", k)
                    break
        elif isinstance(e, A_.RegularAggregation) and isinstance(e.dataset, EXPR) and has_ds(e.dataset) and not isinstance(e.dataset, A_.JoinOp):
            # (a clause on a join is the join's body: alias#component names only exist there, so it is not hoisted)
            inner_join_body = isinstance(e.dataset, A_.RegularAggregation) and any(isinstance(x, A_.JoinOp) for x in _chain(e.dataset))
            if not inner_join_body:
                slot = (e, "dataset", None)
        elif isinstance(e, A_.Aggregation) and isinstance(e.operand, EXPR) and has_ds(e.operand):
            slot = (e, "operand", None)
        if slot is None:
            continue
        node, f, k = slot
        inner = getattr(node, f) if k is None else getattr(node, f)[k]
        ref = A_.VarID(value="DS_t", line_start=1, column_start=1, line_stop=1, column_stop=1)
        if k is None:
            setattr(node, f, ref)
        else:
            getattr(node, f)[k] = ref
        pre = A_.Assignment(left=A_.VarID(value="DS_t", line_start=1, column_start=1, line_stop=1, column_stop=1), op=":=", right=inner,
                            line_start=1, column_start=1, line_stop=1, column_stop=1)
        ast.children.insert(len(ast.children) - 1, pre)
        d = dict(t)
        d["id"] = prefix + t["id"]
        d["ast"] = ast
        d["check"] = ["DS_r"]
        out.append(d)
    return out


def _with_splits(fn):
    def wrapped(tier):
        base = fn(tier) + cross(tier).get(fn.__name__, [])
        return base + split_variants(base) + nested(tier).get(fn.__name__, []) + nested2(tier).get(fn.__name__, []) + nested3(tier).get(fn.__name__, []) + renamers(tier).get(fn.__name__, [])
    wrapped.__name__ = fn.__name__
    wrapped.__doc__ = fn.__doc__
    return wrapped


for _n in ("c01", "c02", "c03", "c04", "c05", "c06", "c07", "c28"):
    globals()[_n] = _with_splits(globals()[_n])


# ------------------------------------------------------------------------------------------ cross-family compositions
def cross(tier):
    """compositions across operator families (an operator applied to the result of an operator of another family): the inner result only
    exists as a sub-query, with the structure the transpiler derives for it"""
    n = 2 if tier == "quick" else 3
    out = {"c01": [], "c02": [], "c03": [], "c04": [], "c05": [], "c06": [], "c07": []}
    gt0 = binop(">", "Me_1", 0)
    s4 = lambda: agg("sum", "DS_4", "group by", ["Id_1"])  # noqa: E731
    # element-wise over other families
    out["c01"] += [T("x_plus_of_aggs", binop("+", s4(), agg("max", "DS_5", "group by", ["Id_1"])), 3),
                   T("x_agg_plus_ds", binop("+", s4(), "DS_6"), 3),
                   T("x_cmp_of_agg", binop(">", s4(), 2), 3),
                   T("x_plus_of_filters", binop("+", filter_("DS_4", gt0), filter_("DS_5", gt0)), n),
                   T("x_plus_of_union", binop("+", setop("union", ["DS_4", "DS_5"]), "DS_4"), n),
                   T("x_abs_of_join", unop("abs", jbody(join("inner_join", [("DS_4", "d1"), ("DS_K", "d2")]), lambda j: keep(j, ["Me_1"]))), n),
                   T("x_if_of_aggs", if_(binop(">", s4(), 0), s4(), agg("min", "DS_5", "group by", ["Id_1"])), 3),
                   T("x_nvl_of_agg", binop("nvl", s4(), 0), 3),
                   T("x_isnull_of_calc", unop("isnull", keep(calc("DS_1", [(None, "Me_9", binop("+", "Me_1", "Me_2"))]), ["Me_9"])), n)]
    # clauses over other families
    out["c02"] += [T("x_calc_on_agg", calc(s4(), [(None, "Me_9", binop("*", "Me_1", 2))]), 3),
                   T("x_filter_on_agg", filter_(s4(), gt0), 3),
                   T("x_rename_on_union", rename(setop("union", ["DS_4", "DS_5"]), [("Me_1", "Me_7")]), n),
                   T("x_keep_on_binop", keep(binop("+", "DS_1", "DS_2"), ["Me_2"]), n),
                   T("x_drop_on_binop", drop(binop("*", "DS_1", "DS_2"), ["Me_1"]), n),
                   T("x_calc_on_analytic", calc(analytic("sum", "DS_4", partition_by=["Id_1"]), [(None, "Me_9", binop("+", "Me_1", 1))]), 3),
                   T("x_sub_on_binop", sub(binop("+", "DS_4", "DS_5"), [("Id_2", "a")]), n),
                   T("x_filter_on_setdiff", filter_(setop("setdiff", ["DS_4", "DS_5"]), gt0), n)]
    # aggregations over other families
    out["c03"] += [T("x_sum_of_filter", agg("sum", filter_("DS_4", gt0), "group by", ["Id_1"]), 3),
                   T("x_sum_of_binop", agg("sum", binop("+", "DS_4", "DS_5"), "group by", ["Id_1"]), 3),
                   T("x_count_of_union", agg("count", setop("union", ["DS_4", "DS_5"]), "group by", ["Id_1"]), 3),
                   T("x_max_of_calc", agg("max", calc("DS_4", [(None, "Me_1", binop("*", "Me_1", 2))]), "group except", ["Id_2"]), 3),
                   T("x_avg_of_rename", agg("avg", rename("DS_4", [("Me_1", "Me_7")]), "group by", ["Id_1"]), 3),
                   T("x_sum_of_join", agg("sum", jbody(join("inner_join", [("DS_4", "d1"), ("DS_K", "d2")]), lambda j: keep(j, ["Me_1"])), "group by", ["Id_1"]), 2),
                   T("x_min_of_sum", agg("min", agg("sum", "DS_7", "group by", ["Id_1", "Id_2"]), "group by", ["Id_1"]), 3),
                   T("x_sum_of_unary", agg("sum", unop("abs", "DS_4"), "group by", ["Id_2"]), 3)]
    # joins over other families
    out["c04"] += [T("x_join_of_aggs", join("inner_join", [(s4(), "d1"), (agg("max", "DS_K", "group by", ["Id_1"]), "d2")]), 3),
                   T("x_join_of_filter", join("left_join", [(filter_("DS_4", gt0), "d1"), ("DS_K", "d2")]), n),
                   T("x_join_of_binop", join("inner_join", [(binop("+", "DS_4", "DS_5"), "d1"), ("DS_K", "d2")]), n),
                   T("x_join_of_rename", join("full_join", [(rename("DS_4", [("Me_1", "Me_7")]), "d1"), ("DS_5", "d2")]), n)]
    # set operators over other families
    out["c05"] += [T("x_union_of_binops", setop("union", [binop("+", "DS_4", "DS_5"), binop("*", "DS_4", "DS_5")]), n),
                   T("x_intersect_of_filters", setop("intersect", [filter_("DS_4", gt0), "DS_5"]), n),
                   T("x_setdiff_of_aggs", setop("setdiff", [s4(), agg("sum", "DS_5", "group by", ["Id_1"])]), 3),
                   T("x_union_of_renames", setop("union", [rename("DS_4", [("Me_1", "Me_7")]), rename("DS_5", [("Me_1", "Me_7")])]), n),
                   T("x_exists_in_of_agg", exists_in("DS_4", s4()), 3)]
    # analytic over other families
    out["c06"] += [T("x_an_sum_of_filter", analytic("sum", filter_("DS_4", gt0), partition_by=["Id_1"]), 3),
                   T("x_an_max_of_binop", analytic("max", binop("+", "DS_4", "DS_5"), partition_by=["Id_1"]), 3),
                   T("x_an_count_of_union", analytic("count", setop("union", ["DS_4", "DS_5"]), partition_by=["Id_1"]), 3)]
    # expressions as operands of aggregates / analytic functions inside clauses, memberships, case, ds-ds nvl
    def aggr_expr(ds, name, aop, expr, gop, g, hv=None):
        from vtlengine.Model import Role
        import vtlengine.AST as A_
        left = comp_(name)
        left.role = Role.MEASURE
        P_ = dict(line_start=1, column_start=1, line_stop=1, column_stop=1)
        return clause_("aggr", ds, [A_.Assignment(left=left, op=":=", right=agg(aop, expr, gop, g, hv), **P_)])
    from vt.astb import comp as comp_, clause as clause_
    out["c03"] += [T("x_aggr_sum_of_product", aggr_expr("DS_1", "Me_9", "sum", binop("*", "Me_1", "Me_2"), "group by", ["Id_1"]), 3),
                   T("x_aggr_max_of_abs", aggr_expr("DS_1", "Me_9", "max", unop("abs", "Me_1"), "group except", ["Id_1"]), 3),
                   T("x_having_two_aggs", agg("sum", "DS_4", "group by", ["Id_1"], having(binop(">", agg("avg", "Me_1"), agg("min", "Me_1")))), 3),
                   T("x_having_and", agg("max", "DS_4", "group by", ["Id_1"], having(binop("and", binop(">", agg("count"), 1), binop(">", agg("sum", "Me_1"), 0)))), 3)]
    out["c06"] += [T("x_calc_an_sum_of_sum", calc("DS_1", [("measure", "Me_9", analytic("sum", binop("+", "Me_1", "Me_2"), partition_by=["Id_1"]))]), 3),
                   T("x_calc_an_plus_comp", calc("DS_4", [("measure", "Me_9", binop("+", analytic("max", "Me_1", partition_by=["Id_1"]), "Me_1"))]), 3),
                   T("x_calc_two_analytics", calc("DS_4", [("measure", "Me_8", analytic("min", "Me_1", partition_by=["Id_1"])), ("measure", "Me_9", analytic("count", "Me_1", partition_by=["Id_2"]))]), 3)]
    out["c01"] += [T("x_membership_plus", binop("+", member("DS_1", "Me_1"), member("DS_2", "Me_1")), n),
                   T("x_membership_of_id", member("DS_1", "Id_2"), n),
                   T("x_nvl_ds_ds", binop("nvl", "DS_4", "DS_5"), n),
                   T("x_case_three", case([(binop(">", "DS_4", 5), "DS_4"), (binop("<", "DS_4", 0), "DS_5")], "DS_4"), n),
                   T("x_case_else_nullable", calc("DS_4", [("measure", "Me_9", case([(binop(">", "Id_1", 0), "Id_1")], "Me_1"))]), n),
                   T("x_case_then_nullable", calc("DS_4", [("measure", "Me_9", case([(binop(">", "Id_1", 0), "Me_1")], "Id_1"))]), n),
                   T("x_if_else_nullable", calc("DS_4", [("measure", "Me_9", if_(binop(">", "Id_1", 0), "Id_1", "Me_1"))]), n),
                   T("x_between_ds_bounds", between("DS_4", 0, 5), n),
                   T("x_not_in_ds", in_("DS_4", [1, 2], neg=True), n)]
    out["c02"] += [T("x_calc_attribute_then_keep", keep(calc("DS_1", [("attribute", "At_9", binop("||", "Id_2", const("x")))]), ["Me_1"]), n),
                   T("x_sub_two_ids", sub("DS_7", [("Id_2", "a"), ("Id_3", 1)]), n),
                   T("x_keep_then_rename_then_calc", calc(rename(keep("DS_1", ["Me_1"]), [("Me_1", "Me_7")]), [(None, "Me_9", binop("*", "Me_7", 2))]), n)]
    # datasets that carry a (non-viral) attribute: element-wise operators, aggregations and set operators drop it, clauses keep it
    AT = POOL + [structure("DS_A", [("Id_1", "Integer", I, False), ("Id_2", "String", I, False), ("Me_1", "Integer", M, True), ("At_1", "String", "Attribute", True)]),
                 structure("DS_A2", [("Id_1", "Integer", I, False), ("Id_2", "String", I, False), ("Me_1", "Integer", M, True), ("At_1", "String", "Attribute", True)])]
    A = lambda tid, e, rows=n: T(tid, e, rows, structs=AT)  # noqa: E731
    out["c01"] += [A("a_plus_ds", binop("+", "DS_A", "DS_A2")), A("a_plus_plain", binop("+", "DS_A", "DS_4")), A("a_plain_plus", binop("+", "DS_4", "DS_A")),
                   A("a_times_sc", binop("*", "DS_A", 2)), A("a_abs", unop("abs", "DS_A")), A("a_gt_sc", binop(">", "DS_A", 0)),
                   A("a_isnull", unop("isnull", "DS_A")), A("a_nvl", binop("nvl", "DS_A", 0)), A("a_if", if_(binop(">", "DS_A", 0), "DS_A", "DS_A2")),
                   A("a_plus_of_times", binop("+", binop("*", "DS_A", 2), "DS_A2"))]
    out["c02"] += [A("a_filter", filter_("DS_A", gt0)), A("a_calc", calc("DS_A", [(None, "Me_9", binop("+", "Me_1", 1))])),
                   A("a_calc_from_attr", calc("DS_A", [(None, "Me_9", binop("||", "At_1", "Id_2"))])), A("a_keep_measure", keep("DS_A", ["Me_1"])),
                   A("a_keep_attr", keep("DS_A", ["At_1"])), A("a_drop_attr", drop("DS_A", ["At_1"])), A("a_rename_attr", rename("DS_A", [("At_1", "At_9")])),
                   A("a_filter_on_attr", filter_("DS_A", binop("=", "At_1", const("a")))), A("a_sub", sub("DS_A", [("Id_2", "a")])),
                   A("a_calc_on_binop", calc(binop("*", "DS_A", 2), [(None, "Me_9", binop("+", "Me_1", 1))])),
                   A("a_calc_on_unary", calc(unop("abs", "DS_A"), [(None, "Me_9", binop("+", "Me_1", 1))])),
                   A("a_calc_on_round", calc(paramop("round", ["DS_A"], [1]), [(None, "Me_9", binop("+", "Me_1", 1))])),
                   A("a_filter_on_isnull", filter_(unop("isnull", "DS_A"), "bool_var")),
                   A("a_calc_attr_role_on_binop", calc(binop("*", "DS_1", 2), [("attribute", "Me_2", "Me_2")]))]
    out["c03"] += [A("a_sum_by", agg("sum", "DS_A", "group by", ["Id_1"]), 3), A("a_count_all", agg("count", "DS_A"), 3),
                   A("a_aggr_clause", aggr("DS_A", [("measure", "Me_9", "max", "Me_1")], "group by", ["Id_2"]), 3)]
    out["c04"] += [A("a_join_inner", join("inner_join", [("DS_A", "d1"), ("DS_K", "d2")])), A("a_join_left_keep", jbody(join("left_join", [("DS_A", "d1"), ("DS_K", "d2")]), lambda j: keep(j, ["Me_1", "At_1"])))]
    out["c05"] += [A("a_union", setop("union", ["DS_A", "DS_A2"])), A("a_setdiff", setop("setdiff", ["DS_A", "DS_A2"])), A("a_symdiff", setop("symdiff", ["DS_A", "DS_A2"])),
                   A("a_exists_in", exists_in("DS_A", "DS_A2", "all"))]
    out["c06"] += [A("a_an_sum", analytic("sum", "DS_A", partition_by=["Id_1"]), 3)]
    # validation over other families
    out["c07"] += [T("x_check_of_binop_cmp", check(binop(">", binop("+", "DS_4", "DS_5"), 0), error_code="E1", error_level=2), n, structs=POOL),
                   T("x_check_of_agg_cmp", check(binop(">", s4(), 0), invalid=True), 3, structs=POOL),
                   T("x_check_imbalance_of_aggs", check(binop(">=", s4(), agg("sum", "DS_5", "group by", ["Id_1"])), imbalance=binop("-", s4(), agg("sum", "DS_5", "group by", ["Id_1"]))), 3, structs=POOL)]
    return out


# ------------------------------------------------------------------------------------------ systematic nesting: outer operator over the sub-query of an inner operator
def _inner_exprs():
    """dataset-valued expressions with identifiers Id_1, Id_2 and the single Integer measure Me_1"""
    gt0 = binop(">", "Me_1", 0)
    return [
        ("dsds", lambda: binop("+", "DS_4", "DS_5")),
        ("dssc", lambda: binop("*", "DS_4", 2)),
        ("unary", lambda: unop("abs", "DS_4")),
        ("agg", lambda: agg("sum", "DS_7", "group by", ["Id_1", "Id_2"])),
        ("analytic", lambda: analytic("sum", "DS_4", partition_by=["Id_1"])),
        ("join", lambda: jbody(join("inner_join", [("DS_4", "d1"), ("DS_K", "d2")]), lambda j: keep(j, ["Me_1"]))),
        ("union", lambda: setop("union", ["DS_4", "DS_5"])),
        ("setdiff", lambda: setop("setdiff", ["DS_4", "DS_5"])),
        ("symdiff", lambda: setop("symdiff", ["DS_4", "DS_5"])),
        ("filter", lambda: filter_("DS_4", gt0)),
        ("calc", lambda: calc("DS_4", [(None, "Me_1", binop("+", "Me_1", 1))])),
        ("rename2", lambda: rename(rename("DS_4", [("Me_1", "Me_7")]), [("Me_7", "Me_1")])),
        ("keep", lambda: keep("DS_1", ["Me_1"])),
        ("cast", lambda: cast("DS_4", "integer")),
        ("member", lambda: member("DS_1", "Me_1")),
        ("if", lambda: if_(binop(">", "DS_4", 0), "DS_4", "DS_5")),
        ("nvl", lambda: binop("nvl", "DS_4", 0)),
    ]


def _outer_ops():
    """(property, name, builder over an inner expression factory, rows)"""
    gt0 = binop(">", "Me_1", 0)
    return [
        ("c01", "plus_ds", lambda e: binop("+", e(), "DS_5"), 2),
        ("c01", "ds_minus", lambda e: binop("-", "DS_5", e()), 2),
        ("c01", "plus_sc", lambda e: binop("+", e(), 1), 2),
        ("c01", "neg", lambda e: unop("-", e()), 2),
        ("c01", "isnull", lambda e: unop("isnull", e()), 2),
        ("c01", "gt_sc", lambda e: binop(">", e(), 1), 2),
        ("c01", "nvl_sc", lambda e: binop("nvl", e(), 0), 2),
        ("c01", "if_cond", lambda e: if_(binop(">", e(), 0), "DS_4", "DS_5"), 2),
        ("c01", "between", lambda e: between(e(), 0, 5), 2),
        ("c02", "filter", lambda e: filter_(e(), gt0), 2),
        ("c02", "calc", lambda e: calc(e(), [(None, "Me_9", binop("*", "Me_1", 2))]), 2),
        ("c02", "rename", lambda e: rename(e(), [("Me_1", "Me_8")]), 2),
        ("c02", "keep", lambda e: keep(e(), ["Me_1"]), 2),
        ("c02", "sub", lambda e: sub(e(), [("Id_2", "a")]), 2),
        ("c03", "sum_by", lambda e: agg("sum", e(), "group by", ["Id_1"]), 3),
        ("c03", "count_by", lambda e: agg("count", e(), "group by", ["Id_1"]), 3),
        ("c03", "max_all", lambda e: agg("max", e()), 3),
        ("c04", "join", lambda e: join("inner_join", [(e(), "a"), ("DS_K", "b")]), 2),
        ("c05", "union", lambda e: setop("union", [e(), "DS_5"]), 2),
        ("c05", "union_second", lambda e: setop("union", ["DS_5", e()]), 2),
        ("c05", "intersect", lambda e: setop("intersect", [e(), "DS_5"]), 2),
        ("c05", "exists_in", lambda e: exists_in("DS_5", e()), 2),
        ("c06", "an_max", lambda e: analytic("max", e(), partition_by=["Id_1"]), 3),
        ("c07", "check", lambda e: check(binop(">", e(), 0), error_code="E", error_level=1), 2),
        ("c09", "cast_num", lambda e: cast(e(), "number"), 2),
    ]


def nested(tier):
    """-> {property: [templates]}: every outer operator over every inner operator"""
    out = {}
    # classes that fail for every combination (recorded findings: a dataset-level analytic or if as an operand, an if whose condition is a nested
    # expression) are represented by a few combinations only; combinations whose result is empty by construction are left out
    REP = {"analytic": ("plus_sc", "filter", "sum_by", "union", "join"), "if": ("plus_sc", "filter", "sum_by", "union", "join")}
    EMPTY = {("plus_ds", "setdiff"), ("ds_minus", "setdiff"), ("intersect", "setdiff")}
    EMPTY |= set()
    for prop, oname, ob, rows in _outer_ops():
        for iname, ib in _inner_exprs():
            if iname in REP and oname not in REP[iname]:
                continue
            if oname == "if_cond" and iname not in ("dsds", "filter", "agg"):
                continue
            if (oname, iname) in EMPTY:
                continue
            rows_ = max(rows, 3 if iname in ("agg", "analytic") else rows)
            d = T("n_%s_of_%s" % (oname, iname), ob(ib), rows_)
            out.setdefault(prop, []).append(d)
    return out


# ------------------------------------------------------------------------------------------ nesting product over a two-measure shape
def nested2(tier):
    """outer x inner over datasets with two measures of different types (Me_1 Integer, Me_2 Number): measure pairing, order and
    per-measure typing through sub-queries"""
    gt0 = binop(">", "Me_1", 0)
    inner = [
        ("dsds", lambda: binop("+", "DS_1", "DS_2")),
        ("dssc", lambda: binop("*", "DS_1", 2)),
        ("unary", lambda: unop("abs", "DS_1")),
        ("agg", lambda: agg("sum", "DS_1", "group by", ["Id_1", "Id_2"])),
        ("union", lambda: setop("union", ["DS_1", "DS_2"])),
        ("setdiff", lambda: setop("setdiff", ["DS_1", "DS_2"])),
        ("filter", lambda: filter_("DS_1", gt0)),
        ("calc", lambda: calc("DS_1", [(None, "Me_2", binop("+", "Me_2", "Me_1"))])),
        ("rename_swap", lambda: rename("DS_1", [("Me_1", "Me_7")])),
        ("nvl", lambda: binop("nvl", "DS_1", 0)),
        ("round", lambda: paramop("round", ["DS_1"], [1])),
    ]
    outer = [
        ("c01", "plus_ds", lambda e: binop("+", e(), "DS_2"), 2, True),
        ("c01", "ds_minus", lambda e: binop("-", "DS_2", e()), 2, True),
        ("c01", "times_sc", lambda e: binop("*", e(), 3), 2, False),
        ("c01", "neg", lambda e: unop("-", e()), 2, False),
        ("c02", "filter2", lambda e: filter_(e(), binop(">", "Me_2", 0)), 2, True),
        ("c02", "calc_both", lambda e: calc(e(), [(None, "Me_9", binop("+", "Me_2", 1))]), 2, True),
        ("c02", "keep2", lambda e: keep(e(), ["Me_2"]), 2, True),
        ("c02", "drop1", lambda e: drop(e(), ["Me_2"]), 2, True),
        ("c03", "sum_by", lambda e: agg("sum", e(), "group by", ["Id_1"]), 3, False),
        ("c03", "avg_by", lambda e: agg("avg", e(), "group by", ["Id_2"]), 3, False),
        ("c04", "join", lambda e: join("inner_join", [(e(), "a"), ("DS_J", "b")]), 2, False),
        ("c05", "union", lambda e: setop("union", [e(), "DS_2"]), 2, True),
        ("c05", "intersect", lambda e: setop("intersect", [e(), "DS_2"]), 2, True),
        ("c06", "an_sum", lambda e: analytic("sum", e(), partition_by=["Id_1"]), 3, False),
    ]
    out = {}
    for prop, oname, ob, rows, needs_me2 in outer:
        for iname, ib in inner:
            if iname == "rename_swap" and needs_me2 and oname in ("plus_ds", "ds_minus", "union", "intersect"):
                continue        # Me_1 renamed: the other operand no longer has the same measures
            if (oname, iname) in (("plus_ds", "setdiff"), ("ds_minus", "setdiff"), ("intersect", "setdiff"), ("filter2", "round")):
                # (filter over round: the row set would depend on the uninterpreted ROUND, which the self-check cannot evaluate)
                continue
            out.setdefault(prop, []).append(T("m2_%s_of_%s" % (oname, iname), ob(ib), rows))
    return out


def nested3(tier):
    """outer x inner over String mono-measure datasets (DS_S, DS_S2): string operators, type-changing operators (length, comparison) and clauses
    over string-valued sub-queries"""
    inner = [
        ("concat", lambda: binop("||", "DS_S", "DS_S2")),
        ("concat_sc", lambda: binop("||", "DS_S", const("x"))),
        ("upper", lambda: unop("upper", "DS_S")),
        ("union", lambda: setop("union", ["DS_S", "DS_S2"])),
        ("filter", lambda: filter_("DS_S", binop("=", "Me_1", const("a")))),
        ("calc", lambda: calc("DS_S", [(None, "Me_1", binop("||", "Me_1", const("z")))])),
        ("nvl", lambda: binop("nvl", "DS_S", const("n"))),
        ("substr", lambda: paramop("substr", ["DS_S"], [1, 2])),
        ("max_by", lambda: agg("max", "DS_S", "group by", ["Id_1"])),
    ]
    outer = [
        ("c01", "concat_ds", lambda e: binop("||", e(), "DS_S2"), 2),
        ("c01", "sc_concat", lambda e: binop("||", const("p"), e()), 2),
        ("c01", "lower", lambda e: unop("lower", e()), 2),
        ("c01", "length", lambda e: unop("length", e()), 2),
        ("c01", "eq_sc", lambda e: binop("=", e(), const("a")), 2),
        ("c01", "lt_ds", lambda e: binop("<", e(), "DS_S2"), 2),
        ("c01", "in_set", lambda e: in_(e(), ["a", "bb"]), 2),
        ("c01", "isnull", lambda e: unop("isnull", e()), 2),
        ("c01", "substr", lambda e: paramop("substr", [e()], [2, 1]), 2),
        ("c02", "filter", lambda e: filter_(e(), binop("<>", "Me_1", const("b"))), 2),
        ("c02", "calc_len", lambda e: calc(e(), [(None, "Me_9", unop("length", "Me_1"))]), 2),
        ("c02", "rename", lambda e: rename(e(), [("Me_1", "Me_7")]), 2),
        ("c03", "max_by", lambda e: agg("max", e(), "group by", ["Id_1"]), 3),
        ("c03", "count_by", lambda e: agg("count", e(), "group by", ["Id_1"]), 3),
        ("c05", "union", lambda e: setop("union", [e(), "DS_S2"]), 2),
        ("c05", "setdiff", lambda e: setop("setdiff", [e(), "DS_S2"]), 2),
        ("c06", "an_min", lambda e: analytic("min", e(), partition_by=["Id_1"]), 3),
    ]
    out = {}
    for prop, oname, ob, rows in outer:
        for iname, ib in inner:
            if (oname, iname) == ("setdiff", "concat"):
                continue        # (DS_S || DS_S2) setdiff DS_S2 has the keys of DS_S2 only: always empty
            out.setdefault(prop, []).append(T("s1_%s_of_%s" % (oname, iname), ob(ib), rows))
    return out


def renamers(tier):
    """operators that rename the single measure (comparison -> bool_var, length -> int_var, count -> int_var, isnull, between, cast) used as OPERANDS:
    the names an enclosing operator sees must be the names the operand's SQL produces"""
    gt = lambda d="DS_4": binop(">", d, 1)  # noqa: E731
    out = {"c01": [], "c02": [], "c03": [], "c05": []}
    out["c01"] += [
        T("r_length_plus", binop("+", unop("length", "DS_S"), 1), 2),
        T("r_count_plus", binop("+", agg("count", "DS_4", "group by", ["Id_1"]), 1), 3),
        T("r_isnull_or_cmp", binop("or", unop("isnull", "DS_4"), binop(">", "DS_5", 0)), 2),
        T("r_between_and_cmp", binop("and", between("DS_4", 1, 2), binop(">", "DS_5", 0)), 2),
        T("r_not_cmp", unop("not", gt()), 2),
        T("r_cmp_eq_cmp", binop("=", gt(), binop("<", "DS_5", 1)), 2),
        T("r_length_gt", binop(">", unop("length", "DS_S"), 1), 2),
        T("r_length_plus_length", binop("+", unop("length", "DS_S"), unop("length", "DS_S2")), 2),
        T("r_in_and_cmp", binop("and", in_("DS_4", [1, 2]), gt("DS_5")), 2),
        T("r_nvl_cmp", binop("nvl", gt(), const(True)), 2),
    ]
    out["c02"] += [
        T("r_rename_boolvar", rename(gt(), [("bool_var", "Me_9")]), 2),
        T("r_filter_boolvar", filter_(gt(), "bool_var"), 2),
        T("r_calc_not_boolvar", calc(gt(), [(None, "Me_9", unop("not", "bool_var"))]), 2),
        T("r_filter_intvar", filter_(unop("length", "DS_S"), binop(">", "int_var", 1)), 2),
        T("r_keep_boolvar", keep(calc(gt(), [(None, "Me_9", const(1))]), ["Me_9"]), 2),
        # operators that promote Integer to Number keep the measure name (an implicit promotion is not a change of type)
        T("r_filter_on_div", filter_(binop("/", "DS_4", 2), binop(">", "Me_1", 0)), 2),
        T("r_calc_on_ln", calc(unop("ln", "DS_4"), [(None, "Me_9", binop("+", "Me_1", 1))]), 2),
        T("r_rename_on_div", rename(binop("/", "DS_4", 2), [("Me_1", "Me_7")]), 2),
        T("r_keep_on_sqrt", keep(calc(unop("sqrt", "DS_4"), [(None, "Me_9", binop("*", "Me_1", 2))]), ["Me_1"]), 2),
    ]
    out["c03"] += [
        T("r_sum_of_length", agg("sum", unop("length", "DS_S"), "group by", ["Id_1"]), 3),
        T("r_count_of_cmp", agg("count", gt(), "group by", ["Id_1"]), 3),
    ]
    out["c05"] += [
        T("r_union_of_cmps", setop("union", [gt(), gt("DS_5")]), 2),
        T("r_setdiff_of_lengths", setop("setdiff", [unop("length", "DS_S"), unop("length", "DS_S2")]), 2),
    ]
    return out
