"""Reference semantics of the VTL time operators over the real calendar (oracle of C08).

A Time_Period is the triple (year, indicator, number); its meaning is the interval
[start_date, end_date] of the proleptic Gregorian / ISO-8601 calendar (vt/sqlsmt/cal.py, validated
against Python's datetime).  Everything below is stated on those intervals:
  timeshift(p, n)      the period of the same indicator n periods later in the calendar
  getyear/getmonth     year / month of the period's start date
  dayofmonth/dayofyear of the period's end date
  datediff             |end(a) - end(b)| in days
  time_agg             the coarser period that contains the period
"""
import z3

from vt.spec.ref import RDS, Ref
from vt.sqlsmt import cal
from vt.sqlsmt.sym import FALSE, NULL, SV, TRUE, Row, Unsupported, as_kind, ite, lit, same
from vt.sqlsmt.timeeval import tp_key_less, tp_sv

PER_YEAR = {"A": 1, "S": 2, "Q": 4, "M": 12}
RANK = {"A": 6, "S": 5, "Q": 4, "M": 3, "W": 2, "D": 1}


def S(x):
    return z3.StringVal(x)


class TimeRef(Ref):
    def __init__(self, ctx, inputs, scalars=None):
        super().__init__(ctx, inputs, scalars)
        self.cal = cal.Cal(ctx)

    # ---- period geometry
    def start_date(self, p):
        y, i, n = p.fields["year"].val, p.fields["ind"].val, p.fields["num"].val
        one = z3.IntVal(1)
        return z3.If(i == S("A"), cal.days_from_civil(y, one, one),
               z3.If(i == S("S"), cal.days_from_civil(y, (n - 1) * 6 + 1, one),
               z3.If(i == S("Q"), cal.days_from_civil(y, (n - 1) * 3 + 1, one),
               z3.If(i == S("M"), cal.days_from_civil(y, n, one),
               z3.If(i == S("W"), cal.date_from_iso(y, n, one), cal.jan1(y) + n - 1)))))

    def end_date(self, p):
        y, i, n = p.fields["year"].val, p.fields["ind"].val, p.fields["num"].val
        one = z3.IntVal(1)

        def eom(m):
            return cal.days_from_civil(y, m, cal.dim(y, m))
        return z3.If(i == S("A"), cal.days_from_civil(y, z3.IntVal(12), z3.IntVal(31)),
               z3.If(i == S("S"), eom(n * 6),
               z3.If(i == S("Q"), eom(n * 3),
               z3.If(i == S("M"), eom(n),
               z3.If(i == S("W"), cal.date_from_iso(y, n, z3.IntVal(7)), cal.jan1(y) + n - 1)))))

    def period_of(self, ind, z):
        """the period with indicator `ind` (python str) containing date z"""
        y, m, d = self.cal.civil(z)
        if ind == "A":
            return y, z3.IntVal(1)
        if ind == "S":
            return y, (m - 1) / 6 + 1
        if ind == "Q":
            return y, (m - 1) / 3 + 1
        if ind == "M":
            return y, m
        if ind == "W":
            return self.cal.iso(z)
        return y, self.cal.doy(z)

    def shift(self, p, n):
        y, i, k = p.fields["year"].val, p.fields["ind"].val, p.fields["num"].val
        res_y, res_k = None, None
        cases = []
        for ind, P in PER_YEAR.items():
            tot = y * P + (k - 1) + n
            cases.append((ind, tot / P, tot % P + 1))
        wy, wk = self.cal.iso(cal.date_from_iso(y, k, z3.IntVal(1)) + 7 * n)
        cases.append(("W", wy, wk))
        dz = cal.jan1(y) + k - 1 + n
        cases.append(("D", self.cal.year(dz), self.cal.doy(dz)))
        ry, rk = cases[-1][1], cases[-1][2]
        for ind, yy, kk in reversed(cases[:-1]):
            ry = z3.If(i == S(ind), yy, ry)
            rk = z3.If(i == S(ind), kk, rk)
        return tp_sv(ry, i, rk, p.null)

    # ---- operators
    def _s_unop(self, op, a, guard):
        av, at = a
        if av.kind == "tp":
            if op == "period_indicator":
                return SV("str", av.null, av.fields["ind"].val), "Duration"
            if op == "getyear":
                # the year of the period itself (an ISO week belongs to its ISO year)
                return SV("int", av.null, av.fields["year"].val), "Integer"
            if op == "getmonth":
                return SV("int", av.null, self.cal.month(self.start_date(av))), "Integer"
            if op == "dayofmonth":
                return SV("int", av.null, self.cal.day(self.end_date(av))), "Integer"
            if op == "dayofyear":
                return SV("int", av.null, self.cal.doy(self.end_date(av))), "Integer"
        if av.kind == "date":
            fn = {"getyear": self.cal.year, "getmonth": self.cal.month, "dayofmonth": self.cal.day, "dayofyear": self.cal.doy}.get(op)
            if fn is not None:
                return SV("int", av.null, fn(av.val)), "Integer"
        return super()._s_unop(op, a, guard)

    def _s_binop(self, op, a, b, guard):
        (av, at), (bv, bt) = a, b
        if op == "datediff":
            if av.kind == "tp" and bv.kind == "tp":
                x, y = self.end_date(av), self.end_date(bv)
            elif av.kind == "date" and bv.kind == "date":
                x, y = av.val, bv.val
            else:
                raise Unsupported("oracle: datediff %s/%s" % (av.kind, bv.kind))
            d = x - y
            return SV("int", z3.Or(av.null, bv.null), z3.If(d >= 0, d, -d)), "Integer"
        if av.kind == "tp" and bv.kind == "tp" and op in ("=", "<>", "<", ">", "<=", ">="):
            nl = z3.Or(av.null, bv.null)
            eq = z3.And(*[av.fields[k].val == bv.fields[k].val for k in ("year", "ind", "num")])
            if op in ("=", "<>"):
                return SV("bool", nl, eq if op == "=" else z3.Not(eq)), "Boolean"
            # ordering is defined between periods of the same indicator only (otherwise a runtime error)
            diff = z3.And(z3.Not(nl), av.fields["ind"].val != bv.fields["ind"].val)
            self.must_err.append(z3.And(guard, diff))
            lt = z3.Or(av.fields["year"].val < bv.fields["year"].val,
                       z3.And(av.fields["year"].val == bv.fields["year"].val, av.fields["num"].val < bv.fields["num"].val))
            gt = z3.And(z3.Not(lt), z3.Not(eq))
            v = {"<": lt, ">": gt, "<=": z3.Or(lt, eq), ">=": z3.Or(gt, eq)}[op]
            return SV("bool", nl, v), "Boolean"
        return super()._s_binop(op, a, b, guard)

    def n_BinOp(self, node):
        if node.op == "timeshift":
            ds = self.ev(node.left)
            n = self.ev(node.right)[0]
            if not isinstance(ds, RDS):
                raise Unsupported("oracle: timeshift on scalar")
            tids = [c[0] for c in ds.comps if c[2] == "Identifier" and c[1] in ("Time_Period", "TimePeriod")]
            if len(tids) != 1:
                raise Unsupported("oracle: timeshift needs one Time_Period identifier")
            t = tids[0]
            rows = []
            for r in ds.rows:
                cols = dict(r.cols)
                cols[t] = self.shift(r.cols[t], n.val)
                rows.append(Row(r.present, cols, r.ord))
            return RDS(ds.comps, rows)
        return super().n_BinOp(node)

    def n_UnaryOp(self, node):
        op = node.op
        if op in ("flow_to_stock", "stock_to_flow"):
            return self.flow_stock(node, op)
        if op == "period_indicator" and self.row is None:
            ds = self.ev(node.operand)
            if isinstance(ds, RDS):
                tids = [c[0] for c in ds.comps if c[2] == "Identifier" and c[1] in ("Time_Period", "TimePeriod")]
                if len(tids) != 1:
                    raise Unsupported("oracle: period_indicator needs one Time_Period identifier")
                rows = []
                for r in ds.rows:
                    cols = {i: r.cols[i] for i in ds.ids()}
                    cols["duration_var"] = SV("str", FALSE, r.cols[tids[0]].fields["ind"].val)
                    rows.append(Row(r.present, cols, r.ord))
                return RDS([c for c in ds.comps if c[2] == "Identifier"] + [("duration_var", "Duration", "Measure")], rows)
        return super().n_UnaryOp(node)

    def flow_stock(self, node, op):
        ds = self.ev(node.operand)
        tids = [c[0] for c in ds.comps if c[2] == "Identifier" and c[1] in ("Time_Period", "TimePeriod")]
        if not isinstance(ds, RDS) or len(tids) != 1:
            raise Unsupported("oracle: flow/stock operand")
        t = tids[0]
        others = [i for i in ds.ids() if i != t]
        n = len(ds.rows)
        rows = []
        for i, r in enumerate(ds.rows):
            same_series = [z3.And(ds.rows[j].present, *[same(ds.rows[j].cols[o], r.cols[o]) for o in others],
                                  ds.rows[j].cols[t].fields["ind"].val == r.cols[t].fields["ind"].val) for j in range(n)]
            before = [z3.And(same_series[j], tp_key_less(ds.rows[j].cols[t], r.cols[t])) for j in range(n)]
            cols = {k: v for k, v in r.cols.items()}
            for m in ds.measures():
                x = r.cols[m]
                if op == "flow_to_stock":
                    tot = x.val + z3.Sum([z3.If(z3.And(before[j], z3.Not(ds.rows[j].cols[m].null)), ds.rows[j].cols[m].val, 0) for j in range(n) if j != i] or [z3.IntVal(0)])
                    cols[m] = SV(x.kind, x.null, tot)
                else:
                    # previous datapoint of the series = the latest one before this period
                    prev, has = None, FALSE
                    for j in range(n):
                        if j == i:
                            continue
                        is_prev = z3.And(before[j], *[z3.Not(z3.And(before[a], tp_key_less(ds.rows[j].cols[t], ds.rows[a].cols[t]))) for a in range(n) if a not in (i, j)])
                        pv = ds.rows[j].cols[m]
                        prev = pv if prev is None else ite(is_prev, pv, prev)
                        has = z3.Or(has, is_prev)
                    if prev is None:
                        cols[m] = x
                    else:
                        dc = z3.And(has, z3.Or(prev.null, x.null))      # null neighbours: not fixed by the statement
                        cols[m] = SV(x.kind, x.null, z3.If(has, x.val - prev.val, x.val), dc=dc)
            rows.append(Row(r.present, cols, r.ord))
        return RDS(ds.comps, rows)

    def s_cast(self, a, tname, guard):
        """Conversions between the time types, stated on the calendar:
        Date -> Time_Period   the daily period of the date
        Time_Period -> Date   a daily period is its date; any other period cannot be converted (runtime error)
        Time -> Date          an interval of a single day is that day; any other interval cannot be converted (runtime error)
        Time -> Time_Period   the period whose first and last day are the interval's; no such period: runtime error"""
        v, st = a
        if v.kind == "null" or st == tname:
            return super().s_cast(a, tname, guard)
        live = z3.And(guard, z3.Not(v.null))
        if st == "Date" and tname == "Time_Period":
            return tp_sv(self.cal.year(v.val), S("D"), self.cal.doy(v.val), v.null), tname
        if st == "Time_Period" and tname == "Date":
            bad = z3.And(live, v.fields["ind"].val != S("D"))
            self.must_err.append(bad)
            self.may_err.append(bad)
            return SV("date", v.null, cal.jan1(v.fields["year"].val) + v.fields["num"].val - 1), tname
        if st == "Time" and tname == "Date":
            d1, d2 = v.fields["d1"].val, v.fields["d2"].val
            bad = z3.And(live, d1 != d2)
            self.must_err.append(bad)
            self.may_err.append(bad)
            return SV("date", v.null, d1), tname
        if st == "Time" and tname == "Time_Period":
            d1, d2 = v.fields["d1"].val, v.fields["d2"].val
            res, found = None, FALSE
            for ind in ("D", "W", "M", "Q", "S", "A"):
                y, n = self.period_of(ind, d1)
                cand = tp_sv(y, S(ind), n, v.null)
                hit = z3.And(self.start_date(cand) == d1, self.end_date(cand) == d2)
                res = cand if res is None else ite(z3.And(hit, z3.Not(found)), cand, res)
                found = z3.Or(found, hit)
            bad = z3.And(live, z3.Not(found))
            self.must_err.append(bad)
            self.may_err.append(bad)
            return res, tname
        return super().s_cast(a, tname, guard)

    def n_ParamOp(self, node):
        if node.op == "dateadd":
            x = self.ev(node.children[0])
            n = self.ev(node.params[0])[0]
            unit = node.params[1].value
            if isinstance(x, RDS):
                raise Unsupported("oracle: dataset-level dateadd")
            xv = x[0]
            guard = self.row[1].present if self.row is not None else TRUE
            if xv.kind == "tp":
                base = self.end_date(xv)
            elif xv.kind == "date":
                base = xv.val
            else:
                raise Unsupported("oracle: dateadd on %s" % xv.kind)
            nl = z3.Or(xv.null, n.null)
            if unit == "D":
                return SV("date", nl, base + n.val), "Date"
            if unit == "W":
                return SV("date", nl, base + 7 * n.val), "Date"
            mult = {"M": 1, "Q": 3, "S": 6, "A": 12}[unit]
            # month arithmetic: established only when the day exists in every month (day <= 28)
            self.domain.append(z3.Implies(z3.And(guard, z3.Not(nl)), self.cal.day(base) <= 28))
            y, m, d = self.cal.civil(base)
            tmon = y * 12 + (m - 1) + n.val * mult
            return SV("date", nl, cal.days_from_civil(tmon / 12, tmon % 12 + 1, d)), "Date"
        return super().n_ParamOp(node)

    def n_TimeAggregation(self, node):
        target = node.period_to
        if node.operand is None:
            raise Unsupported("oracle: time_agg without operand")
        x = self.ev(node.operand)
        if isinstance(x, RDS):
            raise Unsupported("oracle: dataset-level time_agg")
        xv = x[0]
        guard = self.row[1].present if self.row is not None else TRUE
        if xv.kind == "tp":
            i = xv.fields["ind"].val
            rk = z3.If(i == S("A"), 6, z3.If(i == S("S"), 5, z3.If(i == S("Q"), 4, z3.If(i == S("M"), 3, z3.If(i == S("W"), 2, 1)))))
            self.must_err.append(z3.And(guard, z3.Not(xv.null), rk > RANK[target]))
            st, en = self.start_date(xv), self.end_date(xv)
            sy, sk = self.period_of(target, st)
            ey, ek = self.period_of(target, en)
            # a period straddling two target periods (weeks) has no containing period: outside the oracle
            self.domain.append(z3.Implies(z3.And(guard, z3.Not(xv.null), rk <= RANK[target]), z3.And(sy == ey, sk == ek)))
            same_ind = i == S(target)
            res = tp_sv(z3.If(same_ind, xv.fields["year"].val, sy), S(target), z3.If(same_ind, xv.fields["num"].val, sk), xv.null)
            return res, "Time_Period"
        if xv.kind == "date":
            y, k = self.period_of(target, xv.val)
            p = tp_sv(y, S(target), k, xv.null)
            if node.conf == "first":
                return SV("date", xv.null, self.start_date(p)), "Date"
            if node.conf == "last":
                return SV("date", xv.null, self.end_date(p)), "Date"
            return p, "Time_Period"
        raise Unsupported("oracle: time_agg on %s" % xv.kind)
