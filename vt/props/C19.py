"""C19 - run() rejects every input that violates its declared structure (partial: temporal cells and table-level
checks of the DuckDB loader, character-level SMT over the real patterns, macro and validation flow)."""
import concurrent.futures as cf
import multiprocessing as mp
import re
import time

import z3

from vt.sqlsmt import cal, periodio as PIO, strmac as SM
from vt.sqlsmt.strmac import AND, OR, S, T, F, isdigit

JOBS = {}
UP = [ord(c) for c in "ASQMWD"]
LOW = [ord(c) for c in "asqmwd"]


def _solve(oid):
    fn = JOBS[oid]
    t = time.time()
    try:
        out = fn()
    except Exception as e:  # noqa
        import traceback
        out = dict(status="harness_error", reason="%s: %s" % (type(e).__name__, str(e)[:300]), tb=traceback.format_exc()[-800:])
    out["oid"] = oid
    out["dt"] = time.time() - t
    return out


# ---------------------------------------------------------------------- real-engine probes (replay)
def real_accepts(type_name, cell):
    """Does the real run() load a dataset whose (measure) column of `type_name` holds `cell`?"""
    import pandas as pd
    from vt import realrun as R
    from vt.astb import assign, calc, drop, start, structure, unop
    from vtlengine.Exceptions import DataLoadError, InputValidationException
    st = structure("DS_1", [("Id_1", "Integer", "Identifier", False), ("Me_1", type_name, "Measure", True)])
    ast = start(assign("DS_r", drop(calc("DS_1", [("measure", "Me_2", unop("isnull", "Me_1"))]), ["Me_1"])))
    df = pd.DataFrame({"Id_1": [1], "Me_1": pd.Series([cell], dtype=object)})
    try:
        R.run_ast(ast, R.structures(st), {"DS_1": df})
        return True, "accepted"
    except (DataLoadError, InputValidationException) as e:
        return False, "%s %s" % (type(e).__name__, str(e)[:100])
    except Exception as e:
        return None, "raw %s %s" % (type(e).__name__, str(e)[:140])


def real_table(rows):
    """real run() on a 2-identifier table [(int, period string)] -> accepted?"""
    import pandas as pd
    from vt import realrun as R
    from vt.astb import assign, start, structure, var
    from vtlengine.Exceptions import DataLoadError, InputValidationException
    st = structure("DS_1", [("Id_1", "Integer", "Identifier", False), ("Id_2", "Time_Period", "Identifier", False), ("Me_1", "Integer", "Measure", True)])
    df = pd.DataFrame({"Id_1": [r[0] for r in rows], "Id_2": pd.Series([r[1] for r in rows], dtype=object), "Me_1": list(range(len(rows)))})
    try:
        res = R.run_ast(start(assign("DS_r", var("DS_1"))), R.structures(st), {"DS_1": df})
        return True, "accepted: %s" % res["DS_r"].data.to_dict("records")
    except (DataLoadError, InputValidationException) as e:
        return False, "%s %s" % (type(e).__name__, str(e)[:100])
    except Exception as e:
        return None, "raw %s %s" % (type(e).__name__, str(e)[:140])


# ---------------------------------------------------------------------- the loader's validation flow, recorded from the real code
def recorded_flow(components):
    """Run the REAL _validate_loaded_table against a recording connection -> list of (kind, info) steps in execution order."""
    import vtlengine.duckdb_transpiler.io._io as IO

    class Conn:
        def __init__(self):
            self.sql = []

        def execute(self, q, *a, **k):
            self.sql.append(q)
            return self

        def fetchone(self):
            q = self.sql[-1]
            if "distinct_count" in q:
                return (0, 0)
            if "COUNT(*)" in q:
                return (0,)
            return None
    c = Conn()
    IO._validate_loaded_table(c, "T", components)
    steps = []
    for q in c.sql:
        qq = " ".join(q.split())
        m = re.match(r'UPDATE "T" SET "(\w+)" = vtl_period_normalize\("\1"\) WHERE "\1" IS NOT NULL AND "\1" != \'\'$', qq)
        if m:
            steps.append(("normalize", m.group(1)))
            continue
        if re.match(r'SELECT COUNT\(\*\) FROM "T"$', qq):
            steps.append(("dwi", None))
            continue
        m = re.match(r'SELECT \(SELECT COUNT\(\*\) FROM "T"\) AS total, \(SELECT COUNT\(DISTINCT \((.*?)\)\) FROM "T"\) AS distinct_count$', qq)
        if m:
            steps.append(("duplicates", [x.strip().strip('"') for x in m.group(1).split(",")]))
            continue
        if "regexp_matches(UPPER(TRIM(" in qq:
            checks = re.findall(r'CASE WHEN "(\w+)" IS NOT NULL AND "\1" != \'\' AND NOT regexp_matches\(UPPER\(TRIM\("\1"\)\), \'(.*?)\'\) THEN \'\1\|(\w+)\|\'', qq)
            if not checks:
                return None, "temporal check statement not understood: %s" % qq[:200]
            steps.append(("temporal", [(c_, p) for c_, p, _t in checks]))
            continue
        return None, "statement not understood: %s" % qq[:200]
    return steps, None


def run(rep, tier):
    me = PIO.macro_eval()
    V = PIO.patterns()
    timeout = 120000 if tier == "quick" else 600000
    rep.functions = ["io/_io.py: _validate_loaded_table, _normalize_time_period_columns (REAL control flow recorded through a fake connection; statement order and contents drive the encoding)",
                     "io/_validation.py: TIME_PERIOD_PATTERN, TIME_INTERVAL_PATTERN, DURATION_PATTERN (compiled to automata), validate_temporal_columns, validate_no_duplicates, build_create_table_sql",
                     "sql/init.sql: vtl_period_normalize (character-level encoding)"]
    rep.bounds = {"cells": "Time_Period cells of length 4-10 over the alphabet [0-9ASQMWDasqmwd -]; Duration cells of length 1-3; Time cells 'dddd-dd-dd/dddd-dd-dd' with symbolic digits",
                  "tables": "2 datapoints with an Integer and a Time_Period identifier, every pair of documented layouts (symbolic years 1000-9999 and period numbers)"}
    rep.outside = ["Integer / Number / Boolean / String / Date cell parsing, CSV quoting and sniffing, Parquet, DataFrame dtypes (DuckDB C++ kernels)", "characters outside the modelled alphabet",
                   "'each value is returned as the value it denotes' beyond Time_Period normalisation (C21 covers period rendering)"]
    rep.trusted = ["vt/sqlsmt/strmac.py (self-checked against real DuckDB in C21 on every run)", "hand transcription of the documented formats", "interpretation of the 4 statement shapes emitted by _validate_loaded_table"]
    JOBS.clear()
    yv, nv = z3.Int("y"), z3.Int("n")
    ylemma = PIO.num([z3.IntVal(48) + (yv / (10 ** k)) % 10 for k in (3, 2, 1, 0)]) == yv

    # ---- A. Time_Period cells: accepted => a documented spelling of a calendar-valid period.
    # One query per (length, class of cell, what the normalisation turns it into): complete for the alphabet, no enumeration.
    MECHS = ["silently-nulled", "read-as:9999A", "read-as:9999-S9", "read-as:9999-Q9", "read-as:9999-M99", "read-as:9999-W99", "read-as:9999-D999", "other"]

    def mech_cond(norm, mech, L):
        alts = SM.merge(norm).alts
        notnull = z3.Not(norm.null)

        def as_ind(X):
            w = 5 if X == "A" else 6 + PIO.WIDTH[X]
            cs = []
            for g, ch in alts:
                if len(ch) != w:
                    continue
                if X == "A":
                    cs.append(z3.And(g, ch[4] == ord("A")))
                else:
                    cs.append(z3.And(g, ch[4] == 45, ch[5] == ord(X)))
            return z3.And(notnull, OR(*cs))
        if mech == "silently-nulled":
            return norm.null
        if mech == "other":
            return z3.And(notnull, *[z3.Not(as_ind(X)) for X in "ASQMWD"])
        tail = mech.split(":", 1)[1]           # 9999A | 9999-M99 ...
        X = "A" if tail == "9999A" else tail[5]
        return as_ind(X)

    def cell_job(L, klass, mech, ind=None):
        def fn():
            chars, dom = PIO.symbolic_cell(L)
            acc, norm = PIO.loader_accepts(me, chars)
            shape, valid, den = PIO.documented(chars)
            s = z3.Solver()
            s.set("timeout", timeout)
            s.add(*dom)
            s.add(acc, mech_cond(norm, mech, L))
            nospace = AND(*[c != 32 for c in chars])
            nolower = AND(*[z3.Not(OR(*[c == a for a in LOW])) for c in chars])
            if klass == "spaces":
                s.add(z3.Not(nospace))
            elif klass == "lowercase":
                s.add(nospace, z3.Not(nolower))
            elif klass == "undocumented-layout":
                s.add(nospace, nolower, z3.Not(shape))
            else:   # calendar-invalid number in a documented layout
                s.add(nospace, nolower, shape, z3.Not(valid))
            r = s.check()
            if r == z3.sat:
                m = s.model()
                return dict(status="sat", witnesses=["".join(chr(m.eval(c, model_completion=True).as_long()) for c in chars)])
            return dict(status="unsat" if r == z3.unsat else "undecided", witnesses=[], note=str(r))
        return fn
    for L in range(4, 11):
        for klass in ("spaces", "lowercase", "undocumented-layout", "invalid-number"):
            for mech in MECHS:
                JOBS["tp-cell:L%d:%s:%s" % (L, klass, mech)] = cell_job(L, klass, mech)

    # ---- B. completeness: every documented spelling of a valid period is accepted (same queries as C21 (i))
    def complete_job(name, ind, layout):
        def fn():
            k = [x for x in layout if isinstance(x, tuple)]
            width = k[0][1] if k else None
            chars = PIO.render_format(layout, yv, nv)
            acc, norm = PIO.loader_accepts(me, chars)
            s = z3.Solver()
            s.set("timeout", timeout)
            s.add(yv >= 1000, yv <= 9999, ylemma, PIO.valid_number(ind, yv, nv) if width else nv == 1)
            if width:
                s.add(nv >= 0, nv < 10 ** width)
            s.add(z3.Not(acc))
            r = s.check()
            if r == z3.sat:
                m = s.model()
                return dict(status="sat", witnesses=["".join(chr(m.eval(c, model_completion=True).as_long()) for c in chars)])
            return dict(status="unsat" if r == z3.unsat else "undecided", witnesses=[], note=str(r))
        return fn
    for name, ind, layout in PIO.FORMATS:
        JOBS["tp-accept:%s" % name] = complete_job(name, ind, layout)

    # ---- C. Duration cells
    def duration_job(L):
        def fn():
            chars = [z3.Int("c%d" % i) for i in range(L)]
            dom = [OR(*[c == a for a in PIO.ALPHA_CODES + [ord("x"), ord("P")]]) for c in chars]
            ok = SM.rx_match_s(V.DURATION_PATTERN, SM.upper(SM.trim(S([(T, chars)]))))
            doc = AND(z3.BoolVal(L == 1), OR(*[chars[0] == a for a in UP])) if L >= 1 else F
            s = z3.Solver()
            s.set("timeout", timeout)
            s.add(*dom)
            s.add(ok != doc)
            found = []
            while s.check() == z3.sat and len(found) < 4:
                m = s.model()
                cell = "".join(chr(m.eval(c, model_completion=True).as_long()) for c in chars)
                found.append(cell)
                s.add(z3.Not(AND(*[c == ord(ch) if ch != " " else c == 32 for c, ch in zip(chars, cell.upper() if False else cell)])))
                s.add(AND(*[c != 32 for c in chars]) if " " in cell else AND(*[z3.Not(OR(*[c == a for a in LOW])) for c in chars]))
            return dict(status="sat" if found else "unsat", witnesses=found)
        return fn
    for L in (1, 2, 3):
        JOBS["duration-cell:L%d" % L] = duration_job(L)

    # ---- D. Time (interval) cells: 'YYYY-MM-DD/YYYY-MM-DD'
    def time_job(klass):
        def fn():
            d1 = [z3.Int("a%d" % i) for i in range(8)]
            d2 = [z3.Int("b%d" % i) for i in range(8)]

            def lay(d):
                return d[0:4] + [z3.IntVal(45)] + d[4:6] + [z3.IntVal(45)] + d[6:8]
            chars = lay(d1) + [z3.IntVal(47)] + lay(d2)
            ok = SM.rx_match_s(V.TIME_INTERVAL_PATTERN, SM.upper(SM.trim(S([(T, chars)]))))
            y1, m1, dd1 = PIO.num(d1[0:4]), PIO.num(d1[4:6]), PIO.num(d1[6:8])
            y2, m2, dd2 = PIO.num(d2[0:4]), PIO.num(d2[4:6]), PIO.num(d2[6:8])
            v1 = z3.And(m1 >= 1, m1 <= 12, dd1 >= 1, dd1 <= cal.dim(y1, m1))
            v2 = z3.And(m2 >= 1, m2 <= 12, dd2 >= 1, dd2 <= cal.dim(y2, m2))
            s = z3.Solver()
            s.set("timeout", timeout)
            s.add(*[isdigit(c) for c in d1 + d2])
            s.add(y1 >= 1000, y2 >= 1000, ok)
            if klass == "invalid-date":
                s.add(z3.Not(z3.And(v1, v2)))
            else:
                s.add(v1, v2, cal._days_from_civil(y1, m1, dd1) > cal._days_from_civil(y2, m2, dd2))
            r = s.check()
            if r == z3.sat:
                m = s.model()
                return dict(status="sat", witnesses=["".join(chr(m.eval(c, model_completion=True).as_long()) for c in chars)])
            return dict(status="unsat" if r == z3.unsat else "undecided", witnesses=[])
        return fn
    JOBS["time-cell:invalid-date"] = time_job("invalid-date")
    JOBS["time-cell:start-after-end"] = time_job("reversed")

    # ---- E. table level: the real validation flow over a symbolic 2-row table
    from vt.boot import boot
    boot()
    from vtlengine.DataTypes import Integer as TInteger, TimePeriod as TTimePeriod
    from vtlengine.Model import Component, Role
    comps = {"Id_1": Component(name="Id_1", data_type=TInteger, role=Role.IDENTIFIER, nullable=False),
             "Id_2": Component(name="Id_2", data_type=TTimePeriod, role=Role.IDENTIFIER, nullable=False),
             "Me_1": Component(name="Me_1", data_type=TInteger, role=Role.MEASURE, nullable=True)}
    steps, why = recorded_flow(comps)
    rep.extra["recorded_validation_flow"] = steps if steps is not None else why
    if steps is None:
        rep.ob("table:flow", "not_encoded", 0, nontrivial=False, reason=why)
    else:
        pairs = [(a, b) for a in PIO.FORMATS for b in PIO.FORMATS if a[1] == b[1]]   # two spellings of the same indicator
        if tier == "quick":
            pairs = [p for p in pairs if p[0][0] <= p[1][0]]

        def table_job(fa, fb):
            def fn():
                y1, n1, y2, n2, i1, i2 = z3.Ints("y1 n1 y2 n2 i1 i2")
                rows = [(i1, PIO.render_format(fa[2], y1, n1)), (i2, PIO.render_format(fb[2], y2, n2))]
                cells = {0: S([(T, rows[0][1])]), 1: S([(T, rows[1][1])])}
                rejected = F
                for kind, info in steps:
                    if kind == "normalize" and info == "Id_2":
                        for k in (0, 1):
                            nn = me.call("vtl_period_normalize", cells[k])
                            rejected = z3.Or(rejected, nn.err)
                            cells[k] = nn
                    elif kind == "duplicates":
                        same = T
                        if "Id_1" in info:
                            same = z3.And(same, i1 == i2)
                        if "Id_2" in info:
                            same = z3.And(same, SM.seq(cells[0], cells[1]).v)
                        rejected = z3.Or(rejected, same)
                    elif kind == "temporal":
                        for col, pat in info:
                            if col == "Id_2":
                                for k in (0, 1):
                                    rejected = z3.Or(rejected, z3.Not(SM.rx_match_s(pat, SM.upper(SM.trim(cells[k])))))
                    elif kind == "dwi":
                        pass
                wa = [x for x in fa[2] if isinstance(x, tuple)]
                wb = [x for x in fb[2] if isinstance(x, tuple)]
                cons = [y1 >= 1000, y1 <= 9999, y2 >= 1000, y2 <= 9999,
                        PIO.valid_number(fa[1], y1, n1) if wa else n1 == 1, PIO.valid_number(fb[1], y2, n2) if wb else n2 == 1]
                if wa:
                    cons.append(z3.And(n1 >= 0, n1 < 10 ** wa[0][1]))
                if wb:
                    cons.append(z3.And(n2 >= 0, n2 < 10 ** wb[0][1]))
                for yy in (y1, y2):
                    cons.append(PIO.num([z3.IntVal(48) + (yy / (10 ** k)) % 10 for k in (3, 2, 1, 0)]) == yy)
                dup = z3.And(i1 == i2, y1 == y2, n1 == n2)      # both cells are documented spellings of valid periods: duplicate iff same key
                s = z3.Solver()
                s.set("timeout", timeout)
                s.add(*cons)
                s.add(rejected != dup)
                r = s.check()
                if r == z3.sat:
                    m = s.model()
                    w = [(m.eval(i, True).as_long(), "".join(chr(m.eval(c, model_completion=True).as_long()) for c in ch)) for i, ch in rows]
                    return dict(status="sat", witnesses=[w], expect_reject=z3.is_true(m.eval(dup, True)))
                return dict(status="unsat" if r == z3.unsat else "undecided", witnesses=[])
            return fn
        for fa, fb in pairs:
            JOBS["table:dup:%s|%s" % (fa[0], fb[0])] = table_job(fa, fb)
    # NOT NULL constraints of the created table = identifiers + non-nullable components (finite: every role x nullable)
    import itertools
    import vtlengine.duckdb_transpiler.io._validation as VAL
    bad_nn = []
    for roles in itertools.product([(Role.IDENTIFIER, False), (Role.MEASURE, True), (Role.MEASURE, False), (Role.ATTRIBUTE, True), (Role.ATTRIBUTE, False)], repeat=2):
        cc = {"C%d" % i: Component(name="C%d" % i, data_type=TInteger, role=r, nullable=nl) for i, (r, nl) in enumerate(roles)}
        sql = VAL.build_create_table_sql("T", cc)
        for i, (r, nl) in enumerate(roles):
            has = re.search(r'"C%d" \w+ NOT NULL' % i, sql) is not None
            if has != (r == Role.IDENTIFIER or not nl):
                bad_nn.append((str(roles), sql))
    rep.ob("table:not-null-constraints", "discharged" if not bad_nn else "undecided", 0, desc="build_create_table_sql declares NOT NULL exactly for identifiers and non-nullable components (25 role pairs, complete)",
           problems=bad_nn[:2])

    with cf.ProcessPoolExecutor(max_workers=16, mp_context=mp.get_context("fork")) as ex:
        results = list(ex.map(_solve, list(JOBS)))
    for r in results:
        oid = r["oid"]
        if r["status"] == "unsat":
            rep.ob(oid, "discharged", r["dt"])
            continue
        if r["status"] in ("undecided", "harness_error"):
            rep.ob(oid, "undecided", r["dt"], nontrivial=False, note=r.get("note") or r.get("reason"))
            if r["status"] == "harness_error":
                rep.harness_error("%s: %s" % (oid, r.get("reason")))
            continue
        # sat: replay every witness against the real run()
        sts = []
        for w in r["witnesses"]:
            if oid.startswith("tp-cell"):
                acc, det = real_accepts("Time_Period", w)
                klass = oid.split(":")[2]
                mech = oid.split(":", 3)[3]
                (rn, rok), = PIO.real_normalize([w])
                if acc is True:
                    sts.append(rep.violation("C19:tp-cell:%s:%s" % (klass, mech), "Time_Period cell %r (%s) is accepted by run(): normalised to %r" % (w, klass, rn), dict(cell=w, detail=det, obligation=oid, normalised=rn)))
                elif acc is None:
                    sts.append(rep.violation("C19:tp-cell:raw:%s" % shape, "Time_Period cell %r makes run() fail with a raw error: %s" % (w, det), dict(cell=w, detail=det)))
                else:
                    rep.harness_error("%s: witness %r is rejected by the real loader (%s)" % (oid, w, det))
            elif oid.startswith("tp-accept"):
                acc, det = real_accepts("Time_Period", w)
                if acc is not True:
                    sts.append(rep.violation("C19:tp-accept:%s" % oid.split(":", 1)[1], "documented spelling %r of a valid period is rejected: %s" % (w, det), dict(cell=w, detail=det)))
                else:
                    rep.harness_error("%s: witness %r is accepted by the real loader" % (oid, w))
            elif oid.startswith("duration-cell"):
                acc, det = real_accepts("Duration", w)
                doc = w in ("A", "S", "Q", "M", "W", "D")
                if (acc is True) != doc:
                    kl = "spaces" if " " in w else "lowercase" if w != w.upper() else "other"
                    sts.append(rep.violation("C19:duration-cell:%s" % kl, "Duration cell %r: run() %s, documented: %s" % (w, det, doc), dict(cell=w, detail=det)))
                else:
                    rep.harness_error("%s: witness %r behaves as documented on the real loader (%s)" % (oid, w, det))
            elif oid.startswith("time-cell"):
                acc, det = real_accepts("Time", w)
                if acc is True:
                    sts.append(rep.violation("C19:%s" % oid, "Time cell %r is accepted by run()" % w, dict(cell=w, detail=det)))
                else:
                    rep.harness_error("%s: witness %r is rejected by the real loader (%s)" % (oid, w, det))
            elif oid.startswith("table:dup"):
                acc, det = real_table(w)
                if (acc is False) != r["expect_reject"]:
                    sts.append(rep.violation("C19:%s" % oid, "table %r: run() %s, duplicate keys: %s" % (w, det, r["expect_reject"]), dict(rows=w, detail=det)))
                else:
                    rep.harness_error("%s: witness %r behaves correctly on the real loader (%s)" % (oid, w, det))
        st = "violated" if "violated" in sts else "known" if "known" in sts else "undecided"
        rep.ob(oid, st, r["dt"], witnesses=r["witnesses"][:6])
    rep.sample({"obligation": "tp-cell:L8:invalid-number:M", "query": "exists 8 chars over the alphabet: loader_accepts(chars) and documented layout and month not in 1..12",
                "flow": steps})
    rep.extra["rule"] = ("one obligation = one class of cells / tables decided by z3 over the character-level encoding (every cell of the length, every year and period number); witnesses are replayed "
                         "through the real run(); non-trivial = the query was decided (sat classes are enumerated by blocking the witness's shape)")


def replay(path):
    import json
    d = json.load(open(path))
    print(json.dumps(d, indent=1)[:1500])
    if "cell" in d:
        ty = "Duration" if "duration" in d.get("key", "") else "Time" if "time-cell" in d.get("key", "") else "Time_Period"
        acc, det = real_accepts(ty, d["cell"])
        print("run():", acc, det)
        return 1 if acc is not False else 0
    return 1
