"""Bootstrap: make /repo's *current* sources importable and install the stand-in for the
unbuilt C++ parser extension (harness only; nothing in /repo is changed).

The stand-in is registered in sys.modules under the extension's own dotted name so that every
vtlengine module imports.  Text -> AST is therefore unavailable; scripts are built as ASTs from
the repository's own dataclasses (vt/astb.py) and `vtlengine.API.create_ast` is replaced by a
function that maps an opaque token to a deepcopy of a pre-built AST and then calls the real
`DAGAnalyzer.create_dag`, exactly as the real create_ast does after parsing.
"""
import copy
import os
import sys
import types

REPO = os.environ.get("VT_REPO", "/repo")
SRC = os.path.join(REPO, "src")
if SRC not in sys.path:
    sys.path.insert(0, SRC)
VERIF = os.path.dirname(os.path.dirname(os.path.abspath(__file__)))
if VERIF not in sys.path:
    sys.path.insert(0, VERIF)

try:
    # safety net: no single solver query may run for more than 5 minutes unless it sets its own limit (a query without a limit once kept
    # a worker busy for half an hour)
    import z3 as _z3
    _z3.set_param("timeout", 300000)
except Exception:  # noqa
    pass

_EXT = "vtlengine.AST.Grammar._cpp_parser.vtl_cpp_parser"
_REG = {}


def install_stub():
    if _EXT in sys.modules:
        return sys.modules[_EXT]
    m = types.ModuleType(_EXT)

    class ParseNode:  # noqa
        pass

    class TerminalNode:  # noqa
        pass

    m.ParseNode = ParseNode
    m.TerminalNode = TerminalNode

    def parse(text):
        raise RuntimeError("compiled parser unavailable in this sandbox")

    m.parse = parse
    m.get_comments = lambda *a, **k: []
    m.get_input_text = lambda *a, **k: ""
    m.get_syntax_error = lambda *a, **k: None
    _tok = {}

    def __getattr__(attr):
        if attr.startswith("__"):
            raise AttributeError(attr)
        return _tok.setdefault(attr, -1000 - len(_tok))

    m.__getattr__ = __getattr__
    sys.modules[_EXT] = m
    return m


_booted = False


def boot():
    """Install stub + patch create_ast. Idempotent."""
    global _booted
    if _booted:
        return
    install_stub()
    import vtlengine.API as API
    from vtlengine.AST.DAG import DAGAnalyzer

    def fake_create_ast(text):
        key = text.strip().rstrip(";").strip()
        ast = copy.deepcopy(_REG[key])
        DAGAnalyzer.create_dag(ast)
        return ast

    API.create_ast = fake_create_ast
    _booted = True


def register(ast):
    """Register an AST; returns the opaque 'script text' that run() will accept."""
    key = "@@%d" % (len(_REG) + 1)
    _REG[key] = ast
    return key
