"""The Python (pandas path) acceptance of a Time_Period cell - DataTypes/_time_checking.check_time_period - at character level.

Regexes are the REAL compiled patterns of the module (read at run time, turned into automata by strmac.rx_match).
The slicing glue of TimePeriodHandler.__init__ / from_input_customer_support_to_internal is a hand model (validated by replaying
every solver witness through the real validate_dataset); the integer range logic is the predicate `handler_ok`, whose equality with
the real TimePeriodHandler setters is decided by CrossHair (vt/ch/h_c20.py)."""
import z3

from vt import boot

boot.boot()
from vt.sqlsmt import cal, strmac as SM  # noqa: E402
from vt.sqlsmt.strmac import AND, OR, S, T, F, isdigit  # noqa: E402


def real_tables():
    import vtlengine.DataTypes._time_checking as TC
    from vtlengine.DataTypes.TimeHandling import PeriodDuration
    return TC, dict(PeriodDuration.periods)


def handler_ok(ind_code, y, n, periods):
    """TimePeriodHandler accepts (year, indicator, number): year 0..9999, number in 1..periods[ind] ('A': any), day <= 365/366"""
    conds = []
    for ind, mx in periods.items():
        c = ind_code == ord(ind)
        if ind == "A":
            conds.append(c)
        elif ind == "D":
            conds.append(z3.And(c, n >= 1, n <= mx, n <= cal.diy(y)))
        else:
            conds.append(z3.And(c, n >= 1, n <= mx))
    return z3.And(y >= 0, y <= 9999, OR(*conds))


def num(chars):
    v = z3.IntVal(0)
    for c in chars:
        v = v * 10 + (c - 48)
    return v


def py_accepts_fixed(chars, TC, periods):
    """acceptance for a stripped value of concrete length len(chars) -> Bool"""
    L = len(chars)
    vtl = SM.rx_match(TC._vtl_period_re.pattern, chars)
    # compact layout: year = v[:4], indicator = v[4] (or 'A'), number = int(v[5:]) (or 1)
    y = num(chars[0:4])
    if L == 4:
        ok1 = handler_ok(z3.IntVal(ord("A")), y, z3.IntVal(1), periods)
    elif L == 5:
        ok1 = handler_ok(chars[4], y, z3.IntVal(1), periods)
    else:
        ok1 = handler_ok(chars[4], y, num(chars[5:]), periods)
    p1 = z3.And(vtl, ok1)
    # hyphenated path (only reached when the compact pattern does not match)
    iso_date = SM.rx_match(TC._iso_date_re.pattern, chars)
    iso_month = SM.rx_match(TC._iso_month_re.pattern, chars)
    p2 = F
    # (a) iso date YYYY-M-D variants -> zero padded YYYY-MM-DD -> handler: day_of_year(date) (a ValueError for a non-date)
    if L in (8, 9, 10):
        # positions of the two hyphens after the year
        for ml in (1, 2):
            for dl in (1, 2):
                if 4 + 1 + ml + 1 + dl != L:
                    continue
                m = num(chars[5:5 + ml])
                d = num(chars[6 + ml:6 + ml + dl])
                shape = AND(*[isdigit(c) for c in chars[0:4] + chars[5:5 + ml] + chars[6 + ml:]], chars[4] == 45, chars[5 + ml] == 45)
                valid = z3.And(m >= 1, m <= 12, d >= 1, d <= cal.dim(y, m), y >= 1)
                doy = cal._days_from_civil(y, m, d) - cal._days_from_civil(y, z3.IntVal(1), z3.IntVal(1)) + 1
                # the padded value matches ^\d{4}-\d{2}-\d{2}$ of _sdmx_period_re by construction
                p2 = z3.Or(p2, z3.And(shape, valid, handler_ok(z3.IntVal(ord("D")), y, doy, periods)))
    # (b) iso month YYYY-M / YYYY-MM -> 'YYYY-M<digits>' -> _sdmx_period_re month branch -> handler
    if L in (6, 7):
        ml = L - 5
        shape = AND(*[isdigit(c) for c in chars[0:4] + chars[5:]], chars[4] == 45)
        rewritten = chars[0:5] + [z3.IntVal(ord("M"))] + chars[5:]
        p2 = z3.Or(p2, z3.And(shape, SM.rx_match(TC._sdmx_period_re.pattern, rewritten), handler_ok(z3.IntVal(ord("M")), y, num(chars[5:]), periods)))
    # (c) other hyphenated spellings: split on '-': second term of length 1..4
    if L >= 6 and L <= 9:
        sd = SM.rx_match(TC._sdmx_period_re.pattern, chars)
        second = chars[5:]
        k = len(second)
        not_iso = z3.And(z3.Not(iso_date), z3.Not(iso_month))
        nohyphen2 = AND(*[c != 45 for c in second])
        if k == 4:
            okc = handler_ok(z3.IntVal(ord("D")), y, num(second[1:]), periods)
        elif k == 3:
            okc = handler_ok(second[0], y, num(second[1:]), periods)
        elif k == 2:
            isind = OR(*[second[0] == ord(i) for i in periods])
            okc = z3.If(isind, handler_ok(second[0], y, num(second[1:]), periods), handler_ok(z3.IntVal(ord("M")), y, num(second), periods))
        else:
            okc = handler_ok(z3.IntVal(ord("M")), y, num(second), periods)
        p2 = z3.Or(p2, z3.And(not_iso, chars[4] == 45, nohyphen2, sd, okc))
    return z3.Or(p1, z3.And(z3.Not(vtl), p2))


def py_accepts(chars, TC, periods):
    """check_time_period(value): value.strip() then the fixed-length acceptance"""
    stripped = SM.trim(S([(T, list(chars))]))
    out = []
    for g, ch in stripped.alts:
        if len(ch) < 4:
            continue
        out.append(z3.And(g, py_accepts_fixed(ch, TC, periods)))
    return OR(*out)


def real_py_accepts(cell):
    """replay: does the REAL validate_dataset accept this Time_Period cell?"""
    import pandas as pd
    import vtlengine.API as API
    st = {"datasets": [{"name": "DS_1", "DataStructure": [{"name": "Id_1", "type": "Integer", "role": "Identifier", "nullable": False},
                                                          {"name": "Me_1", "type": "Time_Period", "role": "Measure", "nullable": True}]}]}
    df = pd.DataFrame({"Id_1": [1], "Me_1": pd.Series([cell], dtype=object)})
    try:
        API.validate_dataset(st, {"DS_1": df})
        return True, "accepted"
    except Exception as e:  # any exception = validate_dataset raises
        return False, "%s %s" % (type(e).__name__, str(e)[:100])


def handler_ok_py(periods, ind, y, n):
    """python twin of handler_ok (used by the CrossHair harness and the boundary self-check)"""
    import calendar
    if y < 0 or y > 9999 or ind not in periods:
        return False
    if ind == "A":
        return True
    if n < 1 or n > periods[ind]:
        return False
    if ind == "D" and n > (366 if calendar.isleap(y) else 365):
        return False
    return True
