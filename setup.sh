#!/bin/sh
# Builds the overlay venv /verif/.venv offline: /venv's interpreter + its site-packages
# (duckdb, sqlglot, pandas, pysdmx, networkx ...) + crosshair-tool / z3 / cvc5 from the wheelhouse.
set -e
cd "$(dirname "$0")"
V=.venv
if [ -x $V/bin/python ] && $V/bin/python -c "import crosshair, z3, sqlglot, duckdb" 2>/dev/null; then
  echo "setup: $V already usable"; exit 0
fi
rm -rf $V
/venv/bin/python -m venv $V
SP=$($V/bin/python -c "import sysconfig; print(sysconfig.get_paths()['purelib'])")
echo "import site; site.addsitedir('/venv/lib/python3.12/site-packages')" > "$SP/_overlay.pth"
PIP_NO_INDEX=1 $V/bin/python -m pip install -q --no-index --find-links /opt/veriftools/wheels crosshair-tool z3-solver cvc5 lark
$V/bin/python -c "import crosshair, z3, sqlglot, duckdb; print('setup: ok', z3.get_version_string())"
