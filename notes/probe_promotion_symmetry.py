import sys; sys.path.insert(0, "/verif/notes")
import probe_stubparser as stubparser; stubparser.install()
from vtlengine.Utils import BINARY_MAPPING, UNARY_MAPPING
from vtlengine.DataTypes import *
from vtlengine.Exceptions import SemanticError
T = [String, Number, Integer, TimeInterval, Date, TimePeriod, Duration, Boolean, Null]
for tok, cls in BINARY_MAPPING.items():
    ttc, rt = getattr(cls, "type_to_check", None), getattr(cls, "return_type", None)
    asym = []; disagree = []
    for l in T:
        for r in T:
            def tv(a, b):
                try: return cls.type_validation(a, b)
                except SemanticError: return "ERR"
                except Exception as e: return "EXC:" + type(e).__name__
            x, y = tv(l, r), tv(r, l)
            if x is not y and x != y: asym.append((SCALAR_TYPES_CLASS_REVERSE[l], SCALAR_TYPES_CLASS_REVERSE[r], str(x), str(y)))
            try:
                ok = cls.validate_type_compatibility(l, r)
            except Exception as e: ok = "EXC"
            if (ok is True) != (x != "ERR" and not str(x).startswith("EXC")): disagree.append((SCALAR_TYPES_CLASS_REVERSE[l], SCALAR_TYPES_CLASS_REVERSE[r], ok, str(x)))
    print(f"{tok!r:14} {cls.__name__:14} ttc={getattr(ttc,'__name__',ttc)} rt={getattr(rt,'__name__',rt)} asym={asym[:3]} n={len(asym)} check_vs_promote_disagree={disagree[:3]} n={len(disagree)}")
