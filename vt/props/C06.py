from vt import templates
from vt.props import _engine_a


def run(rep, tier):
    _engine_a.run(rep, tier, templates.c06(tier),
                  functions=["SQLTranspiler.visit_Analytic / _visit_analytic_dataset / _build_over_clause / visit_Windowing / _build_analytic_expr / _resolve_partition_cols"],
                  bounds={"quick": "3 datapoints per dataset; sum avg count min max first_value last_value lag lead rank ratio_to_report; data-point frames with offsets 0-2 and unbounded bounds, "
                                   "range frames on an Integer key, asc/desc, partition by / except / none, dataset level and inside calc",
                          "thorough": "4 datapoints (+ median, var_pop, stddev_samp at 3), every operator x every frame shape"},
                  outside=["ties / null order keys (excluded by the statement: total order is asserted as precondition)", "frame offsets > 2", "range frames on Date", "analytic viral propagation"],
                  assumptions=["order keys are non-null and pairwise distinct inside a partition (the statement's 'ordering is total')"])


def replay(path):
    from vt.props import _replay
    return _replay.replay_file("C06", path)
