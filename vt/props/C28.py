from vt import templates
from vt.props import _engine_a


def run(rep, tier):
    _engine_a.run(rep, tier, templates.c28(tier),
                  functions=["ViralPropagation.sql: vp_pair_sql, vp_reduce_refs, vp_group_sql, vp_dataset_wide_sql, _enumerated_case, _enumerated_single_case",
                             "Interpreter.visit_ViralPropagationDef (rule registration)", "SQLTranspiler._apply_measures / _build_ds_ds_binary / visit_Aggregation / visit_JoinOp / _build_dataset_if (viral columns)"],
                  bounds={"quick": "7 rule families (enumerated with the pair clause first / last, non-associative enumerated, aggregate min max sum avg) x 15 operator shapes (ds-ds, ds-scalar, unary, "
                                   "comparison, grouped and ungrouped aggregation, inner/left join, filter, calc, rename, assignment, union, setdiff, dataset if), 2-3 datapoints, nullable viral values",
                          "thorough": "+ default-only rule, depth-2 compositions, 3 datapoints"},
                  outside=["enumerated rules over groups of 3+ datapoints: value is don't-care in the equivalence query (order-independence of those folds is decided by C33's self-composition)",
                           "sum/avg pair rules with a null operand (pair adds, group ignores nulls: not fixed by the model)", "analytic and hierarchy/validation propagation", "value-domain rules"])


def replay(path):
    from vt.props import _replay
    return _replay.replay_file("C28", path)
