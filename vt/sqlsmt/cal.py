"""Calendar theory in linear integer arithmetic (z3 Ints; div/mod by constants only).

Dates are day numbers relative to 1970-01-01 (proleptic Gregorian).  Forward functions are closed
formulas (Howard Hinnant's days_from_civil); inverse functions introduce fresh witnesses
constrained by the forward function.  Everything here is cross-validated against Python's
`datetime` in `selftest()` (concrete evaluation over 1900-2100; not part of any claim).
"""
import z3


def leap(y):
    return z3.Or(z3.And(y % 4 == 0, y % 100 != 0), y % 400 == 0)


def dim(y, m):
    """days in month"""
    return z3.If(m == 2, z3.If(leap(y), 29, 28), z3.If(z3.Or(m == 4, m == 6, m == 9, m == 11), 30, 31))


def diy(y):
    return z3.If(leap(y), 366, 365)


_PROV = {}      # term id -> provenance of date terms built by the forward functions (keeps the term alive)


def days_from_civil(y, m, d):
    z = _days_from_civil(y, m, d)
    _PROV[z.get_id()] = ("civil", y, m, d, z)
    return z


def _days_from_civil(y, m, d):
    y2 = z3.If(m <= 2, y - 1, y)
    era = y2 / 400                       # floor division (positive divisor)
    yoe = y2 - era * 400
    mp = z3.If(m > 2, m - 3, m + 9)
    doy = (153 * mp + 2) / 5 + d - 1
    doe = yoe * 365 + yoe / 4 - yoe / 100 + doy
    return era * 146097 + doe - 719468


def jan1(y):
    return days_from_civil(y, z3.IntVal(1), z3.IntVal(1))


def weekday(z):
    """ISO day of week 1 (Monday) .. 7 (Sunday); 1970-01-01 is a Thursday"""
    return (z + 3) % 7 + 1


def weeks_in_year(y):
    """53 iff 1 January is a Thursday, or a Wednesday in a leap year"""
    wd = weekday(jan1(y))
    return z3.If(z3.Or(wd == 4, z3.And(wd == 3, leap(y))), 53, 52)


def date_from_iso(G, V, u):
    """Monday of ISO week 1 = the Monday on or before 4 January"""
    jan4 = _days_from_civil(G, z3.IntVal(1), z3.IntVal(4))
    monday1 = jan4 - (weekday(jan4) - 1)
    z = monday1 + (V - 1) * 7 + (u - 1)
    _PROV[z.get_id()] = ("iso", G, V, u, z)
    return z


class Cal:
    """inverse functions with witnesses; constraints are appended to `assume`"""

    def __init__(self, ctx):
        self.ctx = ctx
        self.cache = {}

    def civil(self, z):
        """closed form (Hinnant's civil_from_days): div/mod by constants only, no witnesses"""
        if z.get_id() not in _PROV:
            z = z3.simplify(z)           # canonical form: equal date terms share one closed-form expansion
        k = ("civil", z.get_id())
        if k not in self.cache:
            z2 = z + 719468
            era = z2 / 146097
            doe = z2 - era * 146097
            yoe = (doe - doe / 1460 + doe / 36524 - doe / 146096) / 365
            y0 = yoe + era * 400
            doy = doe - (365 * yoe + yoe / 4 - yoe / 100)
            mp = (5 * doy + 2) / 153
            d = doy - (153 * mp + 2) / 5 + 1
            m = z3.If(mp < 10, mp + 3, mp - 9)
            y = z3.If(m <= 2, y0 + 1, y0)
            prov = _PROV.get(z.get_id())
            if prov is not None and prov[0] == "civil":
                # z was built as days_from_civil(Y, M, D): for a valid (Y, M, D) the inverse is (Y, M, D) itself
                _, Y, M, D, _keep = prov
                ok = z3.And(M >= 1, M <= 12, D >= 1, D <= dim(Y, M))
                y, m, d = z3.If(ok, Y, y), z3.If(ok, M, m), z3.If(ok, D, d)
            self.cache[k] = (y, m, d)
        return self.cache[k]

    def year(self, z):
        y = self.civil(z)[0]
        k = ("yearlemma", y.get_id())
        if self.ctx is not None and k not in self.cache and getattr(self.ctx, "cal_lemmas", False):
            self.cache[k] = True
            zz = z if z.get_id() in _PROV else z3.simplify(z)
            # redundant bound (a theorem of the calendar) that spares the solver the division unfolding
            self.ctx.assume.append(z3.And(jan1(y) <= zz, zz < jan1(y + 1)))
        return y

    def month(self, z):
        return self.civil(z)[1]

    def day(self, z):
        return self.civil(z)[2]

    def doy(self, z):
        return z - jan1(self.year(z)) + 1

    def quarter(self, z):
        return (self.month(z) - 1) / 3 + 1

    def last_day(self, z):
        y, m, d = self.civil(z)
        return days_from_civil(y, m, dim(y, m))

    def iso(self, z):
        """(iso year, iso week)"""
        th = z - weekday(z) + 4          # the Thursday of this ISO week
        gy = self.year(th)
        gw = (th - jan1(gy)) / 7 + 1
        prov = _PROV.get(z.get_id())
        if prov is not None and prov[0] == "iso":
            _, G, V, u, _keep = prov
            ok = z3.And(V >= 1, V <= weeks_in_year(G), u >= 1, u <= 7)
            return z3.If(ok, G, gy), z3.If(ok, V, gw)
        return gy, gw

    def add_months(self, z, n):
        y, m, d = self.civil(z)
        t = y * 12 + (m - 1) + n
        ny, nm = t / 12, t % 12 + 1
        nd = z3.If(d > dim(ny, nm), dim(ny, nm), d)
        return days_from_civil(ny, nm, nd)


def selftest(lo=1900, hi=2100, step=1):
    import datetime
    e = datetime.date(1970, 1, 1)

    def val(t):
        return z3.simplify(t).as_long()
    bad = []
    for y in range(lo, hi + 1, step):
        Y = z3.IntVal(y)
        d1 = datetime.date(y, 1, 1)
        if val(jan1(Y)) != (d1 - e).days:
            bad.append(("jan1", y))
        w = datetime.date(y, 12, 28).isocalendar()[1]
        if val(weeks_in_year(Y)) != w:
            bad.append(("weeks", y, w))
        for m, d in ((1, 31), (2, 28), (3, 1), (6, 30), (12, 31), (2, 29 if (y % 4 == 0 and (y % 100 != 0 or y % 400 == 0)) else 28)):
            z = (datetime.date(y, m, d) - e).days
            if val(days_from_civil(Y, z3.IntVal(m), z3.IntVal(d))) != z:
                bad.append(("dfc", y, m, d))
            if val(weekday(z3.IntVal(z))) != datetime.date(y, m, d).isoweekday():
                bad.append(("wd", y, m, d))
            G, V, u = datetime.date(y, m, d).isocalendar()
            if val(date_from_iso(z3.IntVal(G), z3.IntVal(V), z3.IntVal(u))) != z:
                bad.append(("iso", y, m, d))
            cc = Cal(None)
            yy, mm, dd = cc.civil(z3.IntVal(z))
            if (val(yy), val(mm), val(dd)) != (y, m, d):
                bad.append(("civil", y, m, d))
            gy, gw = cc.iso(z3.IntVal(z))
            if (val(gy), val(gw)) != (G, V):
                bad.append(("isoinv", y, m, d))
            if val(cc.last_day(z3.IntVal(z))) != (datetime.date(y + (m == 12), m % 12 + 1, 1) - e).days - 1:
                bad.append(("lastday", y, m, d))
    return bad


if __name__ == "__main__":
    print(selftest())
