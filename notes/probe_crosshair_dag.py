import probe_stubparser as stubparser; stubparser.install()
from vtlengine.AST.DAG import DAGAnalyzer
from vtlengine.AST.DAG._models import StatementDeps
N = 4
G = 1
def sched_ok(e01: bool, e02: bool, e03: bool, e12: bool, e13: bool, e23: bool,
             g00: bool, g01: bool, g02: bool, g03: bool) -> bool:
    """
    post: _
    """
    edges = {(0,1):e01,(0,2):e02,(0,3):e03,(1,2):e12,(1,3):e13,(2,3):e23}
    gl = {(0,0):g00,(0,1):g01,(0,2):g02,(0,3):g03}
    dag = DAGAnalyzer()
    reads = {}
    for k in range(N):
        ins = [f"G{g}" for g in range(G) if gl[(g,k)]] + [f"O{j}" for j in range(k) if edges[(j,k)]]
        reads[k+1] = ins
        dag.dependencies[k+1] = StatementDeps(inputs=list(ins), outputs=[f"O{k}"], persistent=[])
    s = dag._ds_usage_analysis()
    live = set(); loaded_once = set()
    for k in range(1, N+1):
        for d in s.insertion.get(k, []):
            if d in loaded_once: return False
            loaded_once.add(d); live.add(d)
        for d in reads[k]:
            if d not in live: return False
        live.add(f"O{k-1}")
        for d in s.deletion.get(k, []):
            if d not in live: return False
            live.discard(d)
            for k2 in range(k+1, N+1):
                if d in reads[k2]: return False
    return True
