import probe_stubparser as stubparser; stubparser.install()
import copy, pandas as pd
import vtlengine.API as API
import vtlengine.AST as A
from vtlengine.AST.DAG import DAGAnalyzer

P = dict(line_start=1, column_start=0, line_stop=1, column_stop=0)
def V(n): return A.VarID(value=n, **P)
ast0 = A.Start(children=[
    A.PersistentAssignment(left=V("DS_r"), op="<-", right=A.BinOp(left=V("DS_1"), op="+", right=V("DS_2"), **P), **P),
    A.Assignment(left=V("DS_x"), op=":=", right=A.BinOp(left=V("DS_r"), op="*", right=A.Constant(type_="INTEGER_CONSTANT", value=2, **P), **P), **P),
], **P)

REG = {"@@1": ast0}
def fake_create_ast(text):
    ast = copy.deepcopy(REG[text.strip()])
    DAGAnalyzer.create_dag(ast)
    return ast
API.create_ast = fake_create_ast

ds = {"datasets": [
  {"name": "DS_1", "DataStructure": [
     {"name": "Id_1", "type": "Integer", "role": "Identifier", "nullable": False},
     {"name": "Me_1", "type": "Number", "role": "Measure", "nullable": True}]},
  {"name": "DS_2", "DataStructure": [
     {"name": "Id_1", "type": "Integer", "role": "Identifier", "nullable": False},
     {"name": "Me_1", "type": "Number", "role": "Measure", "nullable": True}]},
]}
dp = {"DS_1": pd.DataFrame({"Id_1": [1, 2, 3], "Me_1": [10, None, 30]}),
      "DS_2": pd.DataFrame({"Id_1": [2, 3, 4], "Me_1": [1.5, 2, 3]})}
import time; t=time.time()
res = API.run("@@1", ds, dp, return_only_persistent=False)
print(time.time()-t)
for k, v in res.items():
    print(k, v.data if hasattr(v, "data") else v.value); print({n:(c.data_type.__name__, c.role, c.nullable) for n,c in v.components.items()})
# show SQL
from vtlengine.duckdb_transpiler.Transpiler import SQLTranspiler
