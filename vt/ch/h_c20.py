"""C20 harness (CrossHair): the integer summary `handler_ok` of TimePeriodHandler's acceptance equals the real setters."""
from vt import boot

boot.boot()
from vtlengine.DataTypes.TimeHandling import PeriodDuration, TimePeriodHandler  # noqa: E402
from vt.sqlsmt.pytime import handler_ok_py  # noqa: E402

INDS = ["A", "S", "Q", "M", "W", "D", "X"]
PERIODS = dict(PeriodDuration.periods)


def pick(i):
    for k in range(len(INDS)):
        if i == k:
            return INDS[k]
    raise IndexError(i)


def real_ok(ind, y, n):
    h = TimePeriodHandler.__new__(TimePeriodHandler)
    try:
        h.year = y
        h.period_indicator = ind
        h.period_number = n
        return True
    except Exception:
        return False


def check(i, y, n):
    ind = pick(i)
    return real_ok(ind, y, n) == handler_ok_py(PERIODS, ind, y, n)


def warm_light():
    for i in range(len(INDS)):
        check(i, 2020, 1)
        check(i, 2021, 366)
