"""Reference VTL semantics over symbolic relations (the ORACLE of engine A).

A small, independent interpreter of the VTL AST (the repository's own AST dataclasses, built by
vt/astb.py) on the same symbolic inputs the SQL evaluator sees.  It is written from the VTL
definitions quoted in the property statements, not from the transpiler: matching on common
identifiers, per-measure application, null propagation, Kleene logic, group/aggregate, relational
joins, keyed set operators.  Corners whose VTL meaning is not established offline are put into
`ctx.domain` (constraints that delimit the region where the oracle speaks) instead of guessed.

Errors: `must_err` (VTL requires a runtime error) and `may_err` (an error is acceptable).
"""
import z3

from vt.sqlsmt.sym import (keep_dc, FALSE, NULL, SV, TRUE, Row, Table, Unsupported, as_kind, ite, lex_less, lit, same, unify,
                           KIND_OF_TYPE, is_true)

NUMERIC = ("Integer", "Number")
NAME_FOR_TYPE = {"String": "str_var", "Number": "num_var", "Integer": "int_var", "Boolean": "bool_var",
                 "Date": "date_var", "Time_Period": "time_period_var", "Time": "time_var", "Duration": "duration_var"}
SUBTYPE = {("Integer", "Number")}   # Integer is a subtype of Number (no rename when promoted)

CAST_TYPE_NAME = {"Integer": "Integer", "Number": "Number", "String": "String", "Boolean": "Boolean", "Date": "Date",
                  "TimePeriod": "Time_Period", "TimeInterval": "Time", "Duration": "Duration"}
_DOC_IMPLICIT = None


def documented_implicit():
    """{(from, to)} pairs of the 'Implicit Casting' table of docs/data_types.rst (parsed at run time) + identity"""
    global _DOC_IMPLICIT
    if _DOC_IMPLICIT is None:
        from vt import docs
        m = docs.matrix("docs/data_types.rst", "Implicit Casting (Automatic)")
        _DOC_IMPLICIT = {k for k, cell in m.items() if cell == "|y|"}
    return _DOC_IMPLICIT


ARITH = {"+", "-", "*", "/"}
CMP = {"=", "<>", ">", "<", ">=", "<="}
BOOL2 = {"and", "or", "xor"}


class RDS:
    """Reference dataset: comps = ordered list of (name, type, role); rows = list of Row."""

    def __init__(self, comps, rows):
        self.comps = list(comps)
        self.rows = rows

    def names(self, role=None):
        return [n for n, t, r in self.comps if role is None or r == role]

    def comp(self, name):
        for c in self.comps:
            if c[0] == name:
                return c
        raise KeyError(name)

    def ids(self):
        return self.names("Identifier")

    def measures(self):
        return self.names("Measure")

    def table(self):
        return Table([c[0] for c in self.comps], self.rows)


class Ref:
    def __init__(self, ctx, inputs, scalars=None):
        self.ctx = ctx
        self.env = {}
        for name, t in inputs.items():
            self.env[name] = RDS([(cn, ty, role) for cn, ty, role, nl in t.comps], t.rows)
        self.scalars = dict(scalars or {})     # name -> (SV, type)
        self.must_err = []
        self.may_err = []
        self.domain = []       # region where the oracle is defined
        self.row = None        # clause scope: (RDS, Row)
        self.group = None      # aggregate scope: list[(member Bool, Row)] over RDS
        self.vp_rules = {}

    # ------------------------------------------------------------------ script
    def run(self, start):
        out = {}
        for st in start.children:
            cn = type(st).__name__
            if cn in ("Assignment", "PersistentAssignment"):
                v = self.ev(st.right)
                name = st.left.value
                if isinstance(v, RDS):
                    self.env[name] = v
                else:
                    self.scalars[name] = v
                out[name] = v
            elif cn == "ViralPropagationDef":
                self.def_viral(st)
            elif cn in ("DPRuleset", "HRuleset", "Operator"):
                self.define(st)
            else:
                raise Unsupported("statement %s" % cn)
        return out

    def define(self, st):
        cn = type(st).__name__
        if cn == "DPRuleset":
            self.dprs = getattr(self, "dprs", {})
            self.dprs[st.name] = st
        elif cn == "HRuleset":
            self.hrs = getattr(self, "hrs", {})
            self.hrs[st.name] = st
        else:
            raise Unsupported("definition %s" % cn)

    # ------------------------------------------------------------------ validation operators
    @staticmethod
    def _err_cols(cols, isfalse, code, level):
        cols["errorcode"] = ite(isfalse, lit(code), NULL("str")) if code is not None else NULL("str")
        if level is None:
            cols["errorlevel"] = NULL("int")
        else:
            cols["errorlevel"] = ite(isfalse, lit(level), NULL("int" if isinstance(level, int) else "str"))

    def n_Validation(self, node):
        v = self.ev(node.validation)
        if not isinstance(v, RDS) or len(v.measures()) != 1:
            raise Unsupported("oracle: check on non mono-measure dataset")
        bm = v.measures()[0]
        imb = self.ev(node.imbalance) if node.imbalance is not None else None
        if imb is not None and (not isinstance(imb, RDS) or len(imb.measures()) != 1):
            raise Unsupported("oracle: imbalance shape")
        ids = v.ids()
        rows = []
        for r in v.rows:
            b = as_kind(r.cols[bm], "bool")
            isfalse = z3.And(z3.Not(b.null), z3.Not(b.val))
            cols = {i: r.cols[i] for i in ids}
            cols["bool_var"] = b
            pres = r.present
            if imb is not None:
                # the imbalance datapoint with the same identifiers (absent -> the validation datapoint is not produced)
                found, val = FALSE, None
                for ir in imb.rows:
                    hit = z3.And(ir.present, *[same(ir.cols[i], r.cols[i]) for i in ids])
                    iv = ir.cols[imb.measures()[0]]
                    val = iv if val is None else ite(hit, iv, val)
                    found = z3.Or(found, hit)
                cols["imbalance"] = val
                pres = z3.And(pres, found)
            else:
                cols["imbalance"] = NULL("real")
            self._err_cols(cols, isfalse, node.error_code, node.error_level)
            if node.invalid:
                pres = z3.And(pres, isfalse)
            rows.append(Row(pres, cols, r.ord))
        comps = [v.comp(i) for i in ids] + [("bool_var", "Boolean", "Measure"),
                                            ("imbalance", imb.comp(imb.measures()[0])[1] if imb is not None else "Number", "Measure"),
                                            ("errorcode", "String", "Measure"), ("errorlevel", "Integer", "Measure")]
        return RDS(comps, rows)

    def n_DPValidation(self, node):
        ds = self.ev(node.dataset)
        rs = getattr(self, "dprs", {}).get(node.ruleset_name)
        if rs is None or not isinstance(ds, RDS):
            raise Unsupported("oracle: check_datapoint operands")
        out = node.output.value if node.output is not None else "invalid"
        rules = list(rs.rules)
        if all(r.name is None for r in rules):
            names = [str(i + 1) for i in range(len(rules))]
        else:
            names = [r.name for r in rules]
        rows = []
        for k, (rule, rname) in enumerate(zip(rules, names)):
            for r in ds.rows:
                def ev_(x, r=r):
                    return self.in_row(ds, r, lambda: self.ev(x))
                if type(rule.rule).__name__ == "HRBinOp" and rule.rule.op == "when":
                    c = as_kind(ev_(rule.rule.left)[0], "bool")
                    t = as_kind(ev_(rule.rule.right)[0], "bool")
                    ctrue = z3.And(z3.Not(c.null), c.val)
                    cfalse = z3.And(z3.Not(c.null), z3.Not(c.val))
                    b = SV("bool", z3.Not(z3.Or(cfalse, z3.And(ctrue, z3.Not(t.null)))), z3.Or(cfalse, z3.And(ctrue, t.val)))
                else:
                    b = as_kind(ev_(rule.rule)[0], "bool")
                isfalse = z3.And(z3.Not(b.null), z3.Not(b.val))
                cols = {i: r.cols[i] for i in ds.ids()}
                cols["ruleid"] = lit(rname)
                if out in ("invalid", "all_measures"):
                    for m in ds.measures():
                        cols[m] = r.cols[m]
                if out in ("all", "all_measures"):
                    cols["bool_var"] = b
                if out == "invalid":
                    cols["errorcode"] = lit(rule.erCode) if rule.erCode is not None else NULL("str")
                    cols["errorlevel"] = lit(rule.erLevel) if rule.erLevel is not None else NULL("int")
                else:
                    self._err_cols(cols, isfalse, rule.erCode, rule.erLevel)
                pres = z3.And(r.present, isfalse) if out == "invalid" else r.present
                rows.append(Row(pres, cols, [z3.IntVal(k)] + r.ord))
        comps = [ds.comp(i) for i in ds.ids()] + [("ruleid", "String", "Identifier")]
        if out in ("invalid", "all_measures"):
            comps += [ds.comp(m) for m in ds.measures()]
        if out in ("all", "all_measures"):
            comps.append(("bool_var", "Boolean", "Measure"))
        comps += [("errorcode", "String", "Measure"), ("errorlevel", "Number", "Measure")]
        return RDS(comps, rows)

    # ---- hierarchical rulesets
    @staticmethod
    def _hr_terms(node, sign=1):
        """right-hand side of a hierarchical rule -> [(sign, code)]"""
        cn = type(node).__name__
        if cn == "DefIdentifier":
            return [(sign, node.value)]
        if cn == "HRUnOp":
            return Ref._hr_terms(node.operand, sign * (-1 if node.op == "-" else 1))
        if cn == "HRBinOp" and node.op in ("+", "-"):
            return Ref._hr_terms(node.left, sign) + Ref._hr_terms(node.right, sign * (-1 if node.op == "-" else 1))
        raise Unsupported("oracle: hierarchical rule shape %s" % cn)

    def n_HROperation(self, node):
        ds = self.ev(node.dataset)
        rs = getattr(self, "hrs", {}).get(node.ruleset_name)
        if rs is None or not isinstance(ds, RDS) or len(ds.measures()) != 1 or node.conditions:
            raise Unsupported("oracle: hierarchy operands")
        comp = node.rule_component.value
        meas = ds.measures()[0]
        mkind = KIND_OF_TYPE[ds.comp(meas)[1]]
        others = [i for i in ds.ids() if i != comp]
        mode = node.validation_mode.value if node.validation_mode is not None else "non_null"
        if mode not in ("non_null", "always_null", "always_zero", "partial_null", "partial_zero"):
            raise Unsupported("oracle: validation mode %s" % mode)
        rules = list(rs.rules)
        names = [r.name for r in rules] if any(r.name is not None for r in rules) else [str(i + 1) for i in range(len(rules))]
        all_codes = []
        for r in rules:
            for _, c in [(1, r.rule.left.value)] + self._hr_terms(r.rule.right):
                if c not in all_codes:
                    all_codes.append(c)
        n = len(ds.rows)
        rel = [z3.And(r.present, z3.Or(*[r.cols[comp].val == z3.StringVal(c) for c in all_codes])) for r in ds.rows]
        # groups: distinct values of the other identifiers among datapoints holding one of the ruleset's code items
        groups = []
        for i, r in enumerate(ds.rows):
            members = [z3.And(rel[j], *[same(ds.rows[j].cols[o], r.cols[o]) for o in others]) for j in range(n)]
            first = z3.And(rel[i], *[z3.Not(members[j]) for j in range(i)])
            groups.append((first, r, members))

        def item(members, code, override):
            """(has Bool, SV value) of a code item inside a group"""
            if code in override:
                return override[code]
            has, val = FALSE, NULL(mkind)
            for m, r in zip(members, ds.rows):
                hit = z3.And(m, r.cols[comp].val == z3.StringVal(code))
                val = ite(hit, r.cols[meas], val)
                has = z3.Or(has, hit)
            return has, val

        def treat(has, val):
            """value of an item under the mode (missing -> null / 0)"""
            if mode.endswith("zero"):
                zero = lit(0) if mkind == "int" else SV("real", FALSE, z3.RealVal(0))
                return ite(has, val, zero)
            return SV(val.kind, z3.Or(z3.Not(has), val.null), val.val)

        def evaluated(hv):
            """is the rule evaluated for the group? hv: [(has, raw value)] of all its items"""
            anyhas = z3.Or(*[h for h, _ in hv])
            if mode == "non_null":
                return z3.And(*[z3.And(h, z3.Not(v.null)) for h, v in hv])
            # always_* / partial_*: groups where none of the rule's items exists are outside the oracle
            self.domain.append(z3.Implies(z3.Or(*[g[0] for g in groups]) if False else TRUE, TRUE))
            if mode == "partial_null":
                return z3.Or(*[z3.And(h, z3.Not(v.null)) for h, v in hv])
            return anyhas
        is_check = node.op == "check_hierarchy"
        out = node.output.value if node.output is not None else ("invalid" if is_check else "computed")
        rows = []
        if is_check:
            for k, (rule, rname) in enumerate(zip(rules, names)):
                left = rule.rule.left.value
                terms = self._hr_terms(rule.rule.right)
                for first, rep, members in groups:
                    hv = [item(members, c, {}) for c in [left] + [c for _, c in terms]]
                    ev_ = evaluated(hv)
                    if mode != "non_null":
                        self.domain.append(z3.Implies(first, z3.Or(*[h for h, _ in hv])))
                    lv = treat(*hv[0])
                    rv = None
                    for (sg, c), (h, v) in zip(terms, hv[1:]):
                        t = treat(h, v)
                        t = t if sg > 0 else SV(t.kind, t.null, -t.val)
                        rv = t if rv is None else SV(t.kind, z3.Or(rv.null, t.null), rv.val + t.val)
                    b, _ = self.s_binop(rule.rule.op, (lv, "Number"), (rv, "Number"), TRUE)
                    imb = SV(lv.kind, z3.Or(lv.null, rv.null), lv.val - rv.val)
                    isfalse = z3.And(z3.Not(b.null), z3.Not(b.val))
                    cols = {o: rep.cols[o] for o in others}
                    cols[comp] = lit(left)
                    cols["ruleid"] = lit(rname)
                    cols["imbalance"] = imb
                    if out == "invalid":
                        cols[meas] = lv
                        cols["errorcode"] = lit(rule.erCode) if rule.erCode is not None else NULL("str")
                        cols["errorlevel"] = lit(rule.erLevel) if rule.erLevel is not None else NULL("int")
                        pres = z3.And(first, ev_, isfalse)
                    else:
                        cols["bool_var"] = b
                        if out == "all_measures":
                            cols[meas] = lv
                        self._err_cols(cols, isfalse, rule.erCode, rule.erLevel)
                        pres = z3.And(first, ev_)
                    rows.append(Row(pres, cols, [z3.IntVal(k)] + rep.ord))
            comps = [ds.comp(i) for i in ds.ids()] + [("ruleid", "String", "Identifier")]
            if out in ("invalid", "all_measures"):
                comps.append(ds.comp(meas))
            if out in ("all", "all_measures"):
                comps.append(("bool_var", "Boolean", "Measure"))
            comps += [("errorcode", "String", "Measure"), ("errorlevel", "Number", "Measure"), ("imbalance", "Number", "Measure")]
            return RDS(comps, rows)
        # hierarchy: computed items from '=' rules, applied in order (a later rule sees earlier computed items)
        if mode not in ("non_null", "always_null", "always_zero"):
            raise Unsupported("oracle: hierarchy in mode %s" % mode)
        computed_rows = []
        for first, rep, members in groups:
            override = {}
            for k, rule in enumerate(rules):
                if rule.rule.op != "=":
                    continue
                left = rule.rule.left.value
                terms = self._hr_terms(rule.rule.right)
                hv = [item(members, c, override) for _, c in terms]
                if mode == "non_null":
                    ok = z3.And(*[z3.And(h, z3.Not(v.null)) for h, v in hv])
                    vals = [v for h, v in hv]
                else:
                    # always_null / always_zero: a missing component counts as NULL / 0 and the item is always computed; groups in which
                    # none of the rule's components exists are outside the oracle
                    ok = z3.Or(*[h for h, _ in hv])
                    self.domain.append(z3.Implies(first, ok))
                    vals = [treat(h, v) for h, v in hv]
                rv = None
                for (sg, c), v in zip(terms, vals):
                    t = v if sg > 0 else SV(v.kind, v.null, -v.val)
                    rv = t if rv is None else SV(t.kind, z3.Or(rv.null, t.null), rv.val + t.val)
                oh, ov = item(members, left, override)
                override[left] = (z3.Or(ok, oh), ite(ok, rv, ov))
                cols = {o: rep.cols[o] for o in others}
                cols[comp] = lit(left)
                cols[meas] = rv
                computed_rows.append((z3.And(first, ok), cols, [z3.IntVal(k)] + rep.ord, left))
        if out == "computed":
            # a code item computed by several rules: the statement does not fix it -> templates use distinct left sides
            rows = [Row(p, c, o) for p, c, o, _ in computed_rows]
            return RDS([ds.comp(i) for i in ds.ids()] + [ds.comp(meas)], rows)
        # all: input datapoints, overridden by computed ones with the same identifiers
        rows = [Row(p, c, o) for p, c, o, _ in computed_rows]
        for r in ds.rows:
            over = z3.Or(*[z3.And(p, *[same(c[i], r.cols[i]) for i in ds.ids()]) for p, c, o, _ in computed_rows]) if computed_rows else FALSE
            rows.append(Row(z3.And(r.present, z3.Not(over)), {i: r.cols[i] for i in ds.ids() + [meas]}, r.ord))
        return RDS([ds.comp(i) for i in ds.ids()] + [ds.comp(meas)], rows)

    def def_viral(self, st):
        self.vp_rules[st.target] = dict(enum=[(list(c.values), c.result) for c in (st.enumerated_clauses or [])],
                                        agg=st.aggregate_clause.function if st.aggregate_clause else None, default=st.default_value)

    # ---- viral propagation model (as the engine documents it: ViralPropagation/sql.py docstrings)
    def vp_rule(self, name):
        r = self.vp_rules.get(name)
        if r is None:
            raise Unsupported("oracle: viral attribute %s without a rule" % name)
        return r

    @staticmethod
    def _lit_or_null(v, kind="str"):
        return NULL(kind) if v is None else lit(v)

    def vp_pair(self, rule, a, b):
        """two viral values combined"""
        if rule["agg"]:
            f = rule["agg"]
            x, y, k = unify(a, b)
            if f in ("min", "max"):
                lt = (y.val < x.val) if f == "min" else (y.val > x.val)
                v = z3.If(x.null, y.val, z3.If(y.null, x.val, z3.If(lt, y.val, x.val)))
                return SV(k, z3.And(x.null, y.null), v)
            # sum / avg of a pair: the engine adds the two values (null-propagating) while groups ignore nulls;
            # with a null operand the model is not fixed -> don't care
            anynull = z3.Or(x.null, y.null)
            if f == "sum":
                return SV(k, anynull, x.val + y.val, dc=anynull)
            xr, yr = as_kind(x, "real"), as_kind(y, "real")
            return SV("real", anynull, (xr.val + yr.val) / 2, dc=anynull)

        def has(v):
            if v is None:
                return z3.Or(a.null, b.null)
            return z3.Or(z3.And(z3.Not(a.null), a.val == z3.StringVal(v)), z3.And(z3.Not(b.null), b.val == z3.StringVal(v)))
        res = self._lit_or_null(rule["default"])
        clauses = [c for c in rule["enum"] if len(c[0]) == 2] + [c for c in rule["enum"] if len(c[0]) == 1]
        for vals, result in reversed(clauses):
            res = ite(z3.And(*[has(v) for v in vals]), self._lit_or_null(result), res)
        return res

    def vp_single(self, rule, a):
        """enumerated rule applied to one value (row-preserving operators): only single-value clauses apply"""
        res = self._lit_or_null(rule["default"])
        for vals, result in reversed([c for c in rule["enum"] if len(c[0]) == 1]):
            v = vals[0]
            cond = a.null if v is None else z3.And(z3.Not(a.null), a.val == z3.StringVal(v))
            res = ite(cond, self._lit_or_null(result), res)
        return res

    def vp_group(self, rule, vals, ty):
        """vals: [(member Bool, SV)] combined into one value"""
        if rule["agg"]:
            return self.agg_value(rule["agg"], vals, ty)[0]
        # enumerated: pairwise combination; for three or more members the outcome of a non-associative table depends on
        # the order -> only groups of <= 2 members are fixed by the model (order-independence itself is C33's query)
        cnt = z3.Sum([z3.If(m, 1, 0) for m, _ in vals])
        acc, have = None, FALSE
        for m, v in vals:
            if acc is None:
                acc, have = v, m
                continue
            comb = self.vp_pair(rule, acc, v)
            acc = ite(z3.And(m, have), comb, ite(m, v, acc))
            have = z3.Or(have, m)
        return SV(acc.kind, acc.null, acc.val, dc=(cnt >= 3))

    def virals(self, ds):
        return ds.names("Viral Attribute")

    # ------------------------------------------------------------------ dispatch
    def ev(self, node):
        m = getattr(self, "n_" + type(node).__name__, None)
        if m is None:
            raise Unsupported("VTL node %s" % type(node).__name__)
        return m(node)

    def n_ParFunction(self, node):
        return self.ev(node.operand)

    def n_Constant(self, node):
        v = node.value
        ty = {"INTEGER_CONSTANT": "Integer", "FLOAT_CONSTANT": "Number", "STRING_CONSTANT": "String",
              "BOOLEAN_CONSTANT": "Boolean", "NULL_CONSTANT": "Null"}[node.type_]
        return (lit(v), ty)

    def n_VarID(self, node):
        name = node.value
        if self.row is not None:
            ds, row = self.row
            if name in row.cols:
                return (row.cols[name], ds.comp(name)[1])
            hits = [c for c in row.cols if "#" in c and c.split("#", 1)[1] == name]
            if len(hits) == 1:
                return (row.cols[hits[0]], ds.comp(hits[0])[1])
        if name in self.scalars:
            return self.scalars[name]
        if name in self.env:
            return self.env[name]
        raise Unsupported("unknown name %s" % name)

    def n_Identifier(self, node):
        return self.n_VarID(node)

    # ------------------------------------------------------------------ scalar semantics
    def s_binop(self, op, a, b, guard):
        v, t = self._s_binop(op, a, b, guard)
        return keep_dc(v, a[0], b[0]), t

    def s_unop(self, op, a, guard):
        v, t = self._s_unop(op, a, guard)
        return (keep_dc(v, a[0]) if v is not a[0] else v), t

    def _s_binop(self, op, a, b, guard):
        """(SV, type) x (SV, type) -> (SV, type); guard = the datapoint exists (for error conditions)"""
        (av, at), (bv, bt) = a, b
        if op in ARITH:
            x, y, k = unify(av, bv)
            if k == "null":
                return NULL("real"), "Number"
            nl = z3.Or(x.null, y.null)
            if op == "/":
                xr, yr = as_kind(x, "real"), as_kind(y, "real")
                zero = z3.And(z3.Not(y.null), yr.val == 0)
                self.must_err.append(z3.And(guard, zero, z3.Not(x.null)))
                self.may_err.append(z3.And(guard, zero))
                return SV("real", nl, xr.val / yr.val), "Number"
            v = {"+": x.val + y.val, "-": x.val - y.val, "*": x.val * y.val}[op]
            return SV(k, nl, v), ("Integer" if k == "int" else "Number")
        if op == "mod":
            x, y, k = unify(av, bv)
            if k != "int":
                raise Unsupported("oracle: mod on non-integers")
            # VTL meaning established only for op1 >= 0, op2 > 0
            self.domain.append(z3.Implies(z3.And(guard, z3.Not(x.null), z3.Not(y.null)), z3.And(x.val >= 0, y.val > 0)))
            return SV("int", z3.Or(x.null, y.null), x.val % y.val), "Integer"
        if op in CMP:
            x, y, k = unify(av, bv)
            if k == "null":
                return NULL("bool"), "Boolean"
            nl = z3.Or(x.null, y.null)
            if k == "bool" and op not in ("=", "<>"):
                xv, yv = z3.If(x.val, 1, 0), z3.If(y.val, 1, 0)
            else:
                xv, yv = x.val, y.val
            if op == "=":
                v = xv == yv
            elif op == "<>":
                v = xv != yv
            elif k == "str":
                v = {"<": xv < yv, "<=": xv <= yv, ">": yv < xv, ">=": yv <= xv}[op]
            else:
                v = {"<": xv < yv, "<=": xv <= yv, ">": xv > yv, ">=": xv >= yv}[op]
            return SV("bool", nl, v), "Boolean"
        if op in BOOL2:
            x, y = as_kind(av, "bool"), as_kind(bv, "bool")
            xt, xf = z3.And(z3.Not(x.null), x.val), z3.And(z3.Not(x.null), z3.Not(x.val))
            yt, yf = z3.And(z3.Not(y.null), y.val), z3.And(z3.Not(y.null), z3.Not(y.val))
            if op == "and":
                return SV("bool", z3.Not(z3.Or(xf, yf, z3.And(xt, yt))), z3.And(xt, yt)), "Boolean"
            if op == "or":
                return SV("bool", z3.Not(z3.Or(xt, yt, z3.And(xf, yf))), z3.Or(xt, yt)), "Boolean"
            return SV("bool", z3.Or(x.null, y.null), z3.Xor(x.val, y.val)), "Boolean"
        if op == "||":
            x, y = self.to_str(av), self.to_str(bv)
            return SV("str", z3.Or(x.null, y.null), z3.Concat(x.val, y.val)), "String"
        if op == "nvl":
            x, y, k = unify(av, bv)
            t = at if at != "Null" else bt
            if {at, bt} == {"Integer", "Number"}:
                t = "Number"
            return ite(z3.Not(x.null), x, y), t
        if op in ("power", "log"):
            x, y = as_kind(av, "real"), as_kind(bv, "real")
            if op == "power":
                f = self.ctx.uf("power", z3.RealSort(), z3.RealSort(), z3.RealSort())
                v = f(x.val, y.val)
            else:
                f = self.ctx.uf("log", z3.RealSort(), z3.RealSort(), z3.RealSort())
                v = f(y.val, x.val)   # log(value, base): shared symbol is (base, value)
                self.may_err.append(z3.And(guard, z3.Not(x.null), z3.Not(y.null), z3.Or(x.val <= 0, y.val <= 0)))
            return SV("real", z3.Or(x.null, y.null), v), "Number"
        raise Unsupported("oracle binop %s" % op)

    def to_str(self, v):
        if v.kind == "str":
            return v
        if v.kind == "null":
            return NULL("str")
        if v.kind == "bool":
            raise Unsupported("oracle: boolean to string")
        raise Unsupported("oracle: %s to string" % v.kind)

    def _s_unop(self, op, a, guard):
        av, at = a
        if op == "isnull":
            return SV("bool", FALSE, av.null), "Boolean"
        if av.kind == "null":
            return av, at
        if op == "not":
            x = as_kind(av, "bool")
            return SV("bool", x.null, z3.Not(x.val)), "Boolean"
        if op == "-":
            return SV(av.kind, av.null, -av.val), at
        if op == "+":
            return av, at
        if op == "abs":
            return SV(av.kind, av.null, z3.If(av.val >= 0, av.val, -av.val)), at
        if op in ("ceil", "floor"):
            if av.kind == "int":
                return av, "Integer"
            fl = z3.ToInt(av.val)
            v = fl if op == "floor" else z3.If(z3.ToReal(fl) == av.val, fl, fl + 1)
            return SV("int", av.null, v), "Integer"
        if op in ("exp", "ln", "sqrt"):
            x = as_kind(av, "real")
            f = self.ctx.uf(op, z3.RealSort(), z3.RealSort())
            if op == "ln":
                self.may_err.append(z3.And(guard, z3.Not(x.null), x.val <= 0))
            if op == "sqrt":
                self.may_err.append(z3.And(guard, z3.Not(x.null), x.val < 0))
            return SV("real", x.null, f(x.val)), "Number"
        if op in ("upper", "lower", "trim", "ltrim", "rtrim"):
            x = self.to_str(av)
            f = self.ctx.uf(op, z3.StringSort(), z3.StringSort())
            return SV("str", x.null, f(x.val)), "String"
        if op == "length":
            x = self.to_str(av)
            return SV("int", x.null, z3.Length(x.val)), "Integer"
        raise Unsupported("oracle unop %s" % op)

    def s_round(self, op, a, d, guard):
        av, at = a
        x = as_kind(av, "real")
        if d is None:
            dv, rt = lit(0), "Integer"
        else:
            dv, rt = as_kind(d[0], "int"), "Number"
        f = self.ctx.uf(op, z3.RealSort(), z3.IntSort(), z3.RealSort())
        # a NULL precision behaves as 0 (documented default)
        dval = z3.simplify(z3.If(dv.null, 0, dv.val))
        if op == "trunc" and z3.is_int_value(dval) and dval.as_long() == 0:
            from vt.sqlsmt.sym import trunc_real
            return SV("real", x.null, z3.ToReal(trunc_real(x.val))), rt      # truncation toward zero, exact
        return SV("real", x.null, f(x.val, dval)), rt

    def s_between(self, x, lo, hi):
        a, _ = self.s_binop(">=", x, lo, TRUE)
        b, _ = self.s_binop("<=", x, hi, TRUE)
        nl = z3.Or(x[0].null, lo[0].null, hi[0].null)
        return SV("bool", nl, z3.And(a.val, b.val)), "Boolean"

    def s_in(self, x, values, neg):
        xv, xt = x
        hit = FALSE
        for v in values:
            a, b, k = unify(xv, v)
            hit = z3.Or(hit, a.val == b.val)
        return SV("bool", xv.null, z3.Not(hit) if neg else hit), "Boolean"

    # ------------------------------------------------------------------ dataset plumbing
    @staticmethod
    def result_type_name(in_type, out_type, mono, name):
        if mono and in_type != out_type and (in_type, out_type) not in SUBTYPE:
            return NAME_FOR_TYPE[out_type]
        return name

    def map_measures(self, ds, fn, rename_rule=None):
        """Apply fn((SV, type), guard) -> (SV, type) to every measure; identifiers pass, attributes dropped."""
        meas = ds.measures()
        mono = len(meas) == 1
        comps, names = [], {}
        for n, t, r in ds.comps:
            if r == "Identifier":
                comps.append((n, t, r))
            elif r == "Measure":
                pass
        rows = []
        out_types = {}
        vir = self.virals(ds)
        whole = {}
        for vn in vir:
            rule = self.vp_rule(vn)
            if rule["agg"]:
                # aggregate rule over the whole operand (row-preserving operator)
                whole[vn] = self.agg_value(rule["agg"], [(r.present, r.cols[vn]) for r in ds.rows], ds.comp(vn)[1])
        for row in ds.rows:
            cols = {n: row.cols[n] for n in ds.ids()}
            for m in meas:
                v, ty = fn((row.cols[m], ds.comp(m)[1]), row.present)
                out_types[m] = ty
                cols[m] = v
            for vn in vir:
                cols[vn] = whole[vn][0] if vn in whole else self.vp_single(self.vp_rule(vn), row.cols[vn])
            rows.append(Row(row.present, cols, row.ord))
        if not ds.rows:
            raise Unsupported("oracle: dataset without symbolic rows")
        rename = {}
        for m in meas:
            nn = rename_rule(ds.comp(m)[1], out_types[m], m) if rename_rule else self.result_type_name(ds.comp(m)[1], out_types[m], mono, m)
            rename[m] = nn
            comps.append((nn, out_types[m], "Measure"))
        for row in rows:
            row.cols = {rename.get(k, k): v for k, v in row.cols.items()}
        for vn in vir:
            comps.append((vn, whole[vn][1] if vn in whole else ds.comp(vn)[1], "Viral Attribute"))
        return RDS(comps, rows)

    def ds_ds(self, op, L, R):
        lids, rids = L.ids(), R.ids()
        common = [i for i in lids if i in rids]
        if not (set(lids) <= set(rids) or set(rids) <= set(lids)):
            raise Unsupported("oracle: identifier sets not nested")
        all_ids = lids + [i for i in rids if i not in lids]
        lm, rm = L.measures(), R.measures()
        cm = [m for m in lm if m in rm]
        if not cm and len(lm) == 1 and len(rm) == 1:
            raise Unsupported("oracle: differently named single measures")
        if set(lm) != set(rm):
            raise Unsupported("oracle: different measure sets")
        mono = len(cm) == 1
        rows = []
        types = {}
        lv, rv = self.virals(L), self.virals(R)
        vnames = lv + [v for v in rv if v not in lv]
        for a in L.rows:
            for b in R.rows:
                pres = z3.And(a.present, b.present, *[is_true(self.s_binop("=", (a.cols[i], L.comp(i)[1]), (b.cols[i], R.comp(i)[1]), TRUE)[0]) for i in common])
                cols = {}
                for i in all_ids:
                    cols[i] = a.cols[i] if i in lids else b.cols[i]
                for m in cm:
                    v, ty = self.s_binop(op, (a.cols[m], L.comp(m)[1]), (b.cols[m], R.comp(m)[1]), pres)
                    types[m] = ty
                    cols[m] = v
                for vn in vnames:
                    if vn in lv and vn in rv:
                        cols[vn] = self.vp_pair(self.vp_rule(vn), a.cols[vn], b.cols[vn])
                    else:
                        cols[vn] = a.cols[vn] if vn in lv else b.cols[vn]
                rows.append(Row(pres, cols, a.ord + b.ord))
        comps = [(i, (L.comp(i) if i in lids else R.comp(i))[1], "Identifier") for i in all_ids]
        rename = {}
        for m in cm:
            nn = self.result_type_name(L.comp(m)[1], types[m], mono, m)
            rename[m] = nn
            comps.append((nn, types[m], "Measure"))
        for row in rows:
            row.cols = {rename.get(k, k): v for k, v in row.cols.items()}
        for vn in vnames:
            src = L if vn in lv else R
            vt = src.comp(vn)[1]
            if vn in lv and vn in rv and self.vp_rule(vn)["agg"] == "avg":
                vt = "Number"
            comps.append((vn, vt, "Viral Attribute"))
        return RDS(comps, rows)

    # ------------------------------------------------------------------ operators
    def n_BinOp(self, node):
        op = node.op
        if op == "#":
            return self.membership(node)
        if op in ("in", "not_in"):
            x = self.ev(node.left)
            vals = [self.n_Constant(c)[0] for c in node.right.children]
            if isinstance(x, RDS):
                return self.map_measures(x, lambda mv, g: self.s_in(mv, vals, op == "not_in"))
            return self.s_in(x, vals, op == "not_in")
        l, r = self.ev(node.left), self.ev(node.right)
        if isinstance(l, RDS) and isinstance(r, RDS):
            return self.ds_ds(op, l, r)
        if isinstance(l, RDS):
            return self.map_measures(l, lambda mv, g: self.s_binop(op, mv, r, g))
        if isinstance(r, RDS):
            return self.map_measures(r, lambda mv, g: self.s_binop(op, l, mv, g))
        g = self.row[1].present if self.row is not None else TRUE
        return self.s_binop(op, l, r, g)

    def membership(self, node):
        if self.row is not None:
            rds, row = self.row
            q = "%s#%s" % (node.left.value, node.right.value)
            if q in row.cols:
                return (row.cols[q], rds.comp(q)[1])
            if node.right.value in row.cols:
                return (row.cols[node.right.value], rds.comp(node.right.value)[1])
            raise Unsupported("oracle: membership %s inside clause" % q)
        ds = self.ev(node.left)
        cname = node.right.value
        if self.row is not None and not isinstance(ds, RDS):
            raise Unsupported("oracle: membership inside clause")
        c = ds.comp(cname)
        out_name = cname
        if c[2] in ("Identifier", "Attribute"):
            out_name = NAME_FOR_TYPE[c[1]]
        comps = [x for x in ds.comps if x[2] == "Identifier"] + [(out_name, c[1], "Measure")]
        rows = []
        for r in ds.rows:
            cols = {i: r.cols[i] for i in ds.ids()}
            cols[out_name] = r.cols[cname]
            rows.append(Row(r.present, cols, r.ord))
        return RDS(comps, rows)

    def n_UnaryOp(self, node):
        x = self.ev(node.operand)
        op = node.op
        if isinstance(x, RDS):
            return self.map_measures(x, lambda mv, g: self.s_unop(op, mv, g))
        g = self.row[1].present if self.row is not None else TRUE
        return self.s_unop(op, x, g)

    def n_ParamOp(self, node):
        op = node.op
        if op in ("round", "trunc"):
            x = self.ev(node.children[0])
            d = None
            if node.params:
                p = node.params[0]
                if not (type(p).__name__ == "ID" and p.value == "_"):
                    d = self.ev(p)
            if isinstance(x, RDS):
                return self.map_measures(x, lambda mv, g: self.s_round(op, mv, d, g))
            return self.s_round(op, x, d, TRUE)
        if op == "substr":
            # substr(s, start, length): 1-based start (default 1), length (default: to the end); null operand -> null
            x = self.ev(node.children[0])
            ps = []
            for p_ in node.params:
                ps.append(None if (type(p_).__name__ == "ID" and p_.value == "_") else self.ev(p_))
            while len(ps) < 2:
                ps.append(None)
            for p_ in ps:
                if p_ is not None and not z3.is_int_value(z3.simplify(p_[0].val)):
                    raise Unsupported("oracle: substr with a non-constant position")
            start = 1 if ps[0] is None else z3.simplify(ps[0][0].val).as_long()
            length = None if ps[1] is None else z3.simplify(ps[1][0].val).as_long()
            if start < 1 or (length is not None and length < 0):
                raise Unsupported("oracle: substr corner")

            def f(mv, g):
                sv_ = self.to_str(mv[0])
                return SV("str", sv_.null, z3.SubString(sv_.val, start - 1, z3.Length(sv_.val) if length is None else length)), "String"
            if isinstance(x, RDS):
                return self.map_measures(x, f)
            return f(x, TRUE)
        if op == "instr":
            # instr(s, pattern, start = 1, occurrence = 1): 1-based position of the occurrence found searching from `start`; 0 when not found
            x = self.ev(node.children[0])
            ps = [None if (type(p_).__name__ == "ID" and p_.value == "_") else self.ev(p_) for p_ in node.params]
            while len(ps) < 3:
                ps.append(None)
            if ps[0] is None:
                raise Unsupported("oracle: instr without pattern")
            if ps[2] is not None and not (z3.is_int_value(z3.simplify(ps[2][0].val)) and z3.simplify(ps[2][0].val).as_long() == 1):
                raise Unsupported("oracle: instr occurrence > 1")
            pat = self.to_str(ps[0][0])
            if ps[1] is not None and not z3.is_int_value(z3.simplify(ps[1][0].val)):
                raise Unsupported("oracle: instr with a non-constant start")
            start = 1 if ps[1] is None else z3.simplify(ps[1][0].val).as_long()
            if start < 1:
                raise Unsupported("oracle: instr start < 1")

            def f(mv, g):
                sv_ = self.to_str(mv[0])
                return SV("int", z3.Or(sv_.null, pat.null), z3.IndexOf(sv_.val, pat.val, start - 1) + 1), "Integer"
            if isinstance(x, RDS):
                return self.map_measures(x, f)
            return f(x, TRUE)
        if op == "replace":
            # replace(s, pattern, replacement): every occurrence (the builtin itself is a symbol shared with the SQL side); a missing
            # replacement is the empty string
            x = self.ev(node.children[0])
            ps = [None if (type(p_).__name__ == "ID" and p_.value == "_") else self.ev(p_) for p_ in node.params]
            if not ps or ps[0] is None:
                raise Unsupported("oracle: replace without pattern")
            pat = self.to_str(ps[0][0])
            new = self.to_str(ps[1][0]) if len(ps) > 1 and ps[1] is not None else lit("")
            fu = self.ctx.uf("replace", z3.StringSort(), z3.StringSort(), z3.StringSort(), z3.StringSort())

            def f(mv, g):
                sv_ = self.to_str(mv[0])
                return SV("str", z3.Or(sv_.null, pat.null, new.null), fu(sv_.val, pat.val, new.val)), "String"
            if isinstance(x, RDS):
                return self.map_measures(x, f)
            return f(x, TRUE)
        if op == "nvl":
            return self.n_BinOp(type("B", (), dict(op="nvl", left=node.children[0], right=node.params[0]))())
        if op == "cast":
            src = node.children[0]
            tgt = node.children[1]
            tname = {"Integer": "Integer", "Number": "Number", "String": "String", "Boolean": "Boolean"}.get(getattr(tgt, "__name__", ""), None)
            if type(src).__name__ == "Constant" and src.value is None and tname:
                return NULL(KIND_OF_TYPE[tname]), tname
            if node.params:
                raise Unsupported("oracle: cast with mask")
            tname = CAST_TYPE_NAME.get(getattr(tgt, "__name__", ""))
            if tname is None:
                raise Unsupported("oracle: cast target %r" % tgt)
            x = self.ev(src)
            if isinstance(x, RDS):
                if len(x.measures()) != 1:
                    raise Unsupported("oracle: cast on a dataset needs exactly one measure")
                imp = documented_implicit()
                return self.map_measures(x, lambda mv, g: self.s_cast(mv, tname, g),
                                         rename_rule=lambda it, ot, name: name if (it, ot) in imp else NAME_FOR_TYPE[ot])
            g = self.row[1].present if self.row is not None else TRUE
            return self.s_cast(x, tname, g)
        raise Unsupported("oracle ParamOp %s" % op)

    def s_cast(self, a, tname, guard):
        """Documented conversion rules (docs/data_types.rst, 'Explicit Casting'): 0 -> false / other -> true; true -> 1, false -> 0;
        Boolean -> String 'True' / 'False'; Integer <-> Number value preserving, Number -> Integer truncating toward zero (VTL 2.2)."""
        from vt.sqlsmt.sym import int_to_double, trunc_real
        v, st = a
        if v.kind == "null":
            return NULL(KIND_OF_TYPE[tname]), tname
        if st == tname:
            return v, tname
        if tname == "Number" and st == "Integer":
            return keep_dc(SV("real", v.null, int_to_double(self.ctx, v.val)), v), tname
        if tname == "Integer" and st == "Number":
            # outside the BIGINT range the conversion cannot succeed: a runtime error is acceptable
            self.may_err.append(z3.And(guard, z3.Not(v.null), z3.Or(v.val >= 2 ** 63, v.val <= -2 ** 63)))
            return keep_dc(SV("int", v.null, trunc_real(v.val)), v), tname
        if tname == "Boolean" and st in NUMERIC:
            return keep_dc(SV("bool", v.null, v.val != 0), v), tname
        if st == "Boolean" and tname == "Integer":
            return keep_dc(SV("int", v.null, z3.If(v.val, 1, 0)), v), tname
        if st == "Boolean" and tname == "Number":
            return keep_dc(SV("real", v.null, z3.If(v.val, z3.RealVal(1), z3.RealVal(0))), v), tname
        if tname == "String":
            if st == "Integer":
                return keep_dc(SV("str", v.null, self.ctx.uf("int_to_str", z3.IntSort(), z3.StringSort())(v.val)), v), tname
            if st == "Number":
                return keep_dc(SV("str", v.null, self.ctx.uf("real_to_str", z3.RealSort(), z3.StringSort())(v.val)), v), tname
            if st == "Boolean":
                return keep_dc(SV("str", v.null, z3.If(v.val, z3.StringVal("True"), z3.StringVal("False"))), v), tname
        raise Unsupported("oracle: cast %s -> %s" % (st, tname))

    def n_MulOp(self, node):
        op = node.op
        if op == "between":
            x, lo, hi = [self.ev(c) for c in node.children]
            if isinstance(x, RDS):
                return self.map_measures(x, lambda mv, g: self.s_between(mv, lo, hi))
            return self.s_between(x, lo, hi)
        if op in ("union", "intersect", "setdiff", "symdiff"):
            return self.setop(op, [self.ev(c) for c in node.children])
        if op == "exists_in":
            L, R = self.ev(node.children[0]), self.ev(node.children[1])
            if not (isinstance(L, RDS) and isinstance(R, RDS)):
                raise Unsupported("oracle: exists_in operands")
            common = [i for i in L.ids() if i in R.ids()]
            if not common:
                raise Unsupported("oracle: exists_in without common identifiers")
            retain = None
            if len(node.children) >= 3:
                rn = node.children[2]
                retain = rn.value if type(rn).__name__ == "Constant" else None
            rows = []
            for r in L.rows:
                hit = z3.Or(*[z3.And(o.present, *[same(r.cols[i], o.cols[i]) for i in common]) for o in R.rows]) if R.rows else FALSE
                cols = {i: r.cols[i] for i in L.ids()}
                cols["bool_var"] = SV("bool", FALSE, hit)
                pres = r.present if retain is None else z3.And(r.present, hit if retain else z3.Not(hit))
                rows.append(Row(pres, cols, r.ord))
            return RDS([L.comp(i) for i in L.ids()] + [("bool_var", "Boolean", "Measure")], rows)
        raise Unsupported("oracle MulOp %s" % op)

    # ---- set operators: keyed semantics
    def setop(self, op, ops):
        ids = ops[0].ids()
        for o in ops[1:]:
            if [c[0] for c in o.comps] != [c[0] for c in ops[0].comps] and set(c[0] for c in o.comps) != set(c[0] for c in ops[0].comps):
                raise Unsupported("oracle: set operands differ in structure")

        def key_eq(a, b):
            return z3.And(*[same(a.cols[i], b.cols[i]) for i in ids]) if ids else TRUE

        def has(o, row):
            return z3.Or(*[z3.And(r.present, key_eq(r, row)) for r in o.rows]) if o.rows else FALSE
        comps = [c for c in ops[0].comps]
        rows = []
        if op == "union":
            for k, o in enumerate(ops):
                for r in o.rows:
                    earlier = [has(p, r) for p in ops[:k]]
                    rows.append(Row(z3.And(r.present, *[z3.Not(e) for e in earlier]), dict(r.cols), [z3.IntVal(k)] + r.ord))
        elif op == "intersect":
            for r in ops[0].rows:
                rows.append(Row(z3.And(r.present, *[has(o, r) for o in ops[1:]]), dict(r.cols), r.ord))
        elif op == "setdiff":
            if len(ops) != 2:
                raise Unsupported("setdiff arity")
            for r in ops[0].rows:
                rows.append(Row(z3.And(r.present, z3.Not(has(ops[1], r))), dict(r.cols), r.ord))
        elif op == "symdiff":
            if len(ops) != 2:
                raise Unsupported("symdiff arity")
            for r in ops[0].rows:
                rows.append(Row(z3.And(r.present, z3.Not(has(ops[1], r))), dict(r.cols), [z3.IntVal(0)] + r.ord))
            for r in ops[1].rows:
                rows.append(Row(z3.And(r.present, z3.Not(has(ops[0], r))), dict(r.cols), [z3.IntVal(1)] + r.ord))
        return RDS(comps, rows)

    # ---- conditional
    def n_If(self, node):
        c = self.ev(node.condition)
        t = self.ev(node.thenOp)
        e = self.ev(node.elseOp)
        if not isinstance(c, RDS):
            if isinstance(t, RDS) or isinstance(e, RDS):
                raise Unsupported("oracle: scalar condition with dataset branches")
            cv = as_kind(c[0], "bool")
            # VTL: a null condition selects the else branch
            tv, ev_, k = unify(t[0], e[0])
            ty = t[1] if t[1] != "Null" else e[1]
            if {t[1], e[1]} == {"Integer", "Number"}:
                ty = "Number"
            return ite(z3.And(z3.Not(cv.null), cv.val), tv, ev_), ty
        # dataset condition: one boolean measure; result keyed by the condition's datapoints; the chosen
        # branch must hold the datapoint (dataset branch) - otherwise it is absent
        cm = c.measures()
        if len(cm) != 1:
            raise Unsupported("oracle: condition dataset with %d measures" % len(cm))
        ids = c.ids()
        ref = t if isinstance(t, RDS) else e if isinstance(e, RDS) else None
        if ref is None:
            raise Unsupported("oracle: if with dataset condition and two scalar branches")
        for b in (t, e):
            if isinstance(b, RDS) and b.ids() != ids and set(b.ids()) != set(ids):
                raise Unsupported("oracle: if branches with different identifiers")
        meas = ref.measures()
        rows = []
        for cr in c.rows:
            cond = is_true(cr.cols[cm[0]])

            def pick(b, m):
                """(found Bool, SV) of measure m in branch b for this key"""
                if not isinstance(b, RDS):
                    return TRUE, b[0]
                found = FALSE
                val = None
                for r in b.rows:
                    hit = z3.And(r.present, *[same(r.cols[i], cr.cols[i]) for i in ids])
                    val = r.cols[m] if val is None else ite(hit, r.cols[m], val)
                    found = z3.Or(found, hit)
                return found, val
            cols = {i: cr.cols[i] for i in ids}
            pres = None
            for m in meas:
                ft, vt = pick(t, m)
                fe, ve = pick(e, m)
                vt2, ve2, _ = unify(vt, ve)
                cols[m] = ite(cond, vt2, ve2)
                pres = z3.And(cr.present, z3.If(cond, ft, fe))
            for vn in self.virals(ref):
                if isinstance(t, RDS) and isinstance(e, RDS):
                    ft, vt = pick(t, vn)
                    fe, ve = pick(e, vn)
                    nk = KIND_OF_TYPE[ref.comp(vn)[1]]
                    cols[vn] = self.vp_pair(self.vp_rule(vn), ite(ft, vt, NULL(nk)), ite(fe, ve, NULL(nk)))
                elif isinstance(t, RDS):
                    ft, vt = pick(t, vn)
                    cols[vn] = ite(cond, vt, NULL(vt.kind))
                else:
                    fe, ve = pick(e, vn)
                    cols[vn] = ite(cond, NULL(ve.kind), ve)
            rows.append(Row(pres, cols, cr.ord))
        comps = [c.comp(i) for i in ids]
        for m in meas:
            ty = ref.comp(m)[1]
            other = e if ref is t else t
            if isinstance(other, RDS):
                if {ty, other.comp(m)[1]} == {"Integer", "Number"}:
                    ty = "Number"
            elif {ty, other[1]} == {"Integer", "Number"}:
                ty = "Number"
            comps.append((m, ty, "Measure"))
        for vn in self.virals(ref):
            vt_ = ref.comp(vn)[1]
            if isinstance(t, RDS) and isinstance(e, RDS) and self.vp_rule(vn)["agg"] == "avg":
                vt_ = "Number"
            comps.append((vn, vt_, "Viral Attribute"))
        return RDS(comps, rows)

    def n_Case(self, node):
        conds = [self.ev(c.condition) for c in node.cases]
        thens = [self.ev(c.thenOp) for c in node.cases]
        els = self.ev(node.elseOp)
        if any(isinstance(x, RDS) for x in conds + thens + [els]):
            raise Unsupported("oracle: dataset-level case")
        # exactly one TRUE condition selects its branch; none -> else.  Overlapping TRUE conditions are outside
        # the oracle (first-match vs last-match could not be established offline)
        trues = [z3.And(z3.Not(as_kind(cv, "bool").null), as_kind(cv, "bool").val) for cv, _ in conds]
        g = self.row[1].present if self.row is not None else TRUE
        for i_ in range(len(trues)):
            for j_ in range(i_ + 1, len(trues)):
                self.domain.append(z3.Implies(g, z3.Not(z3.And(trues[i_], trues[j_]))))
        res, ty = els
        for (cv, _), (tv, tt) in reversed(list(zip(conds, thens))):
            c = as_kind(cv, "bool")
            a, b, _k = unify(tv, res)
            res = ite(z3.And(z3.Not(c.null), c.val), a, b)
            if {tt, ty} == {"Integer", "Number"}:
                ty = "Number"
            elif ty == "Null":
                ty = tt
        return res, ty

    # ------------------------------------------------------------------ clauses
    def n_RegularAggregation(self, node):
        ds = self.ev(node.dataset)
        if not isinstance(ds, RDS):
            raise Unsupported("oracle: clause on a scalar")
        m = getattr(self, "c_" + node.op, None)
        if m is None:
            raise Unsupported("oracle clause %s" % node.op)
        return m(node, ds)

    def in_row(self, ds, row, fn):
        saved = self.row
        self.row = (ds, row)
        try:
            return fn()
        finally:
            self.row = saved

    def c_unpivot(self, node, ds):
        """DS[unpivot Id_new, Me_new]: one datapoint per (datapoint, measure) whose measure value is not null; Id_new holds the measure's
        name, Me_new its value.  Attributes are dropped (viral attributes are outside the oracle here)."""
        new_id, new_me = node.children[0].value, node.children[1].value
        meas = ds.measures()
        if not meas:
            raise Unsupported("oracle: unpivot without measures")
        if self.virals(ds):
            raise Unsupported("oracle: unpivot with viral attributes")
        types = {ds.comp(m)[1] for m in meas}
        if len(types) != 1 and types != {"Integer", "Number"}:
            raise Unsupported("oracle: unpivot of measures of different types")
        ty = "Number" if len(types) > 1 else next(iter(types))
        ids = ds.ids()
        comps = [ds.comp(i) for i in ids] + [(new_id, "String", "Identifier"), (new_me, ty, "Measure")]
        rows = []
        for r in ds.rows:
            for k, m in enumerate(meas):
                v = r.cols[m]
                if ty == "Number":
                    v = as_kind(v, "real")
                cols = {i: r.cols[i] for i in ids}
                cols[new_id] = lit(m)
                cols[new_me] = v
                rows.append(Row(z3.And(r.present, z3.Not(v.null)), cols, r.ord + [z3.IntVal(k)]))
        return RDS(comps, rows)

    def c_filter(self, node, ds):
        rows = []
        for r in ds.rows:
            c = self.in_row(ds, r, lambda: self.ev(node.children[0]))
            rows.append(Row(z3.And(r.present, is_true(as_kind(c[0], "bool"))), dict(r.cols), r.ord))
        return RDS(ds.comps, rows)

    def c_calc(self, node, ds):
        items = []
        for ch in node.children:
            role = "Measure"
            a = ch
            if type(ch).__name__ == "UnaryOp":
                role = {"measure": "Measure", "identifier": "Identifier", "attribute": "Attribute",
                        "viral attribute": "Viral Attribute"}[ch.op]
                a = ch.operand
            items.append((a.left.value, role, a.right))
        comps = list(ds.comps)
        rows = [Row(r.present, dict(r.cols), r.ord) for r in ds.rows]
        types = {}
        for name, role, expr in items:
            for r_old, r_new in zip(ds.rows, rows):
                v, ty = self.in_row(ds, r_old, lambda: self.ev(expr))
                if isinstance(v, RDS):
                    raise Unsupported("oracle: dataset inside calc")
                types[name] = ty
                r_new.cols[name] = v
            if role == "Identifier":
                raise Unsupported("oracle: calc identifier")
            existing = [i for i, c in enumerate(comps) if c[0] == name]
            ty = types[name]
            if ty == "Null":
                raise Unsupported("oracle: calc null constant")
            if existing:
                if comps[existing[0]][2] == "Identifier":
                    raise Unsupported("oracle: calc over identifier")
                comps[existing[0]] = (name, ty, role)
            else:
                comps.append((name, ty, role))
        return RDS(comps, rows)

    def c_keep(self, node, ds):
        names = [c.value for c in node.children]
        keepset = set(ds.ids()) | set(names)
        comps = [c for c in ds.comps if c[0] in keepset]
        return RDS(comps, [Row(r.present, {k: v for k, v in r.cols.items() if k in keepset}, r.ord) for r in ds.rows])

    def c_drop(self, node, ds):
        names = {c.value for c in node.children}
        comps = [c for c in ds.comps if c[0] not in names]
        return RDS(comps, [Row(r.present, {k: v for k, v in r.cols.items() if k not in names}, r.ord) for r in ds.rows])

    def c_rename(self, node, ds):
        mp = {c.old_name: c.new_name for c in node.children}
        comps = [(mp.get(n, n), t, r) for n, t, r in ds.comps]
        return RDS(comps, [Row(r.present, {mp.get(k, k): v for k, v in r.cols.items()}, r.ord) for r in ds.rows])

    def c_sub(self, node, ds):
        fixed = {}
        for c in node.children:
            fixed[c.left.value] = self.n_Constant(c.right)[0]
        comps = [c for c in ds.comps if c[0] not in fixed]
        rows = []
        for r in ds.rows:
            ok = [is_true(self.s_binop("=", (r.cols[k], ds.comp(k)[1]), (v, ds.comp(k)[1]), TRUE)[0]) for k, v in fixed.items()]
            rows.append(Row(z3.And(r.present, *ok), {k: v for k, v in r.cols.items() if k not in fixed}, r.ord))
        return RDS(comps, rows)

    # ------------------------------------------------------------------ aggregation
    def agg_value(self, op, vals, ty):
        """vals: [(member Bool, SV)] -> (SV, type): VTL aggregate over the non-null values of the group"""
        nn = [(z3.And(m, z3.Not(v.null)), v) for m, v in vals]
        cnt = z3.Sum([z3.If(m, 1, 0) for m, _ in nn]) if nn else z3.IntVal(0)
        none = z3.Not(z3.Or(*[m for m, _ in nn])) if nn else TRUE
        k = KIND_OF_TYPE[ty]
        if op == "count":
            # number of non-null values; an empty count (NULL by the engine's documented convention, 0 elsewhere) is
            # not fixed by the statement: value is don't-care there, the datapoint itself must still exist
            return SV("int", FALSE, cnt, dc=(cnt == 0)), "Integer"
        if op == "sum":
            zero = z3.IntVal(0) if k == "int" else z3.RealVal(0)
            return SV(k, none, z3.Sum([z3.If(m, v.val, zero) for m, v in nn])), ty
        if op == "avg":
            s = z3.Sum([z3.If(m, z3.ToReal(v.val) if k == "int" else v.val, z3.RealVal(0)) for m, v in nn])
            return SV("real", none, s / z3.ToReal(z3.If(cnt == 0, 1, cnt))), "Number"
        if op in ("min", "max"):
            # the extreme member: a witness-free definition by folding
            best = None
            for m, v in nn:
                if best is None:
                    best = (m, v.val)
                    continue
                bm, bv = best
                if k == "str":
                    lt = (v.val < bv) if op == "min" else (bv < v.val)
                elif k == "bool":
                    lt = z3.And(z3.Not(v.val), bv) if op == "min" else z3.And(v.val, z3.Not(bv))
                else:
                    lt = (v.val < bv) if op == "min" else (v.val > bv)
                best = (z3.Or(bm, m), z3.If(z3.And(m, z3.Or(z3.Not(bm), lt)), v.val, bv))
            return SV(k, none, best[1]), ty
        if op == "median":
            rv = [(m, z3.ToReal(v.val) if k == "int" else v.val) for m, v in nn]
            lo = self.ctx.fresh("omedlo", z3.RealSort())
            hi = self.ctx.fresh("omedhi", z3.RealSort())
            below = lambda x: z3.Sum([z3.If(z3.And(m, v < x), 1, 0) for m, v in rv])  # noqa: E731
            atmost = lambda x: z3.Sum([z3.If(z3.And(m, v <= x), 1, 0) for m, v in rv])  # noqa: E731
            kl, ku = (cnt - 1) / 2, cnt / 2
            self.ctx.assume.append(z3.Implies(z3.Not(none), z3.And(
                z3.Or(*[z3.And(m, v == lo) for m, v in rv]), below(lo) <= kl, kl < atmost(lo),
                z3.Or(*[z3.And(m, v == hi) for m, v in rv]), below(hi) <= ku, ku < atmost(hi))))
            return SV("real", none, (lo + hi) / 2), "Number"
        if op in ("var_pop", "var_samp", "stddev_pop", "stddev_samp"):
            from vt.sqlsmt.sqleval import variance_symbol
            v = variance_symbol(self.ctx, op, [(m, z3.ToReal(v.val) if k == "int" else v.val) for m, v in nn], cnt, none)
            return v, "Number"
        raise Unsupported("oracle aggregate %s" % op)

    def group_rows(self, ds, gids):
        """-> list of (rep_present, rep_row, members[list of Bool over ds.rows])"""
        out = []
        n = len(ds.rows)
        for i, r in enumerate(ds.rows):
            members = [z3.And(ds.rows[j].present, *[same(ds.rows[j].cols[g], r.cols[g]) for g in gids]) for j in range(n)]
            first = z3.And(r.present, *[z3.Not(members[j]) for j in range(i)])
            out.append((first, r, members))
        return out

    def n_Aggregation(self, node):
        op = node.op
        if self.group is not None:
            # component-level aggregate inside aggr / having
            ds, members = self.group
            if node.operand is None:
                # count(): number of datapoints of the group; whether datapoints with null measures count is not fixed by
                # the statement -> don't-care as soon as a member has a null measure
                vals = [(m, SV("int", FALSE, z3.IntVal(1))) for m in members]
                v, t_ = self.agg_value("count", vals, "Integer")
                anynull = z3.Or(*[z3.And(m, z3.Or(*[r.cols[x].null for x in ds.measures()])) for m, r in zip(members, ds.rows)]) if ds.measures() else FALSE
                v.dc = z3.Or(v.dc, anynull)
                return v, t_
            vals = []
            ty = None
            for m, r in zip(members, ds.rows):
                saved_g, self.group = self.group, None
                try:
                    v, ty = self.in_row(ds, r, lambda: self.ev(node.operand))
                finally:
                    self.group = saved_g
                vals.append((m, v))
            return self.agg_value(op, vals, ty)
        ds = self.ev(node.operand)
        if not isinstance(ds, RDS):
            raise Unsupported("oracle: aggregate of scalar")
        gids = self.grouping_ids(ds, node)
        meas = ds.measures()
        rows = []
        types = {}
        if gids or node.grouping_op is not None and False:
            groups = self.group_rows(ds, gids)
        else:
            groups = None
        if not gids:
            members = [r.present for r in ds.rows]
            # no identifiers left: exactly one datapoint when the operand has datapoints (absent when empty)
            groups = [(z3.Or(*members), ds.rows[0], members)]
        out_meas = []
        for first, rep, members in groups:
            cols = {g: rep.cols[g] for g in gids}
            if op == "count":
                # dataset-level count: datapoints whose measures are all non-null
                full = [z3.And(m, *[z3.Not(r.cols[x].null) for x in meas]) for m, r in zip(members, ds.rows)]
                c = z3.Sum([z3.If(m, 1, 0) for m in full])
                # datapoints with some-but-not-all null measures: not fixed by the statement -> don't care
                partial = z3.Or(*[z3.And(m, z3.Or(*[r.cols[x].null for x in meas]), z3.Not(z3.And(*[r.cols[x].null for x in meas])))
                                  for m, r in zip(members, ds.rows)]) if len(meas) > 1 else FALSE
                cols["int_var"] = SV("int", FALSE, c, dc=z3.Or(c == 0, partial))
                out_meas = [("int_var", "Integer", "Measure")]
            else:
                out_meas = []
                for x in meas:
                    v, ty = self.agg_value(op, [(m, r.cols[x]) for m, r in zip(members, ds.rows)], ds.comp(x)[1])
                    cols[x] = v
                    out_meas.append((x, ty, "Measure"))
            for vn in self.virals(ds):
                cols[vn] = self.vp_group(self.vp_rule(vn), [(m, r.cols[vn]) for m, r in zip(members, ds.rows)], ds.comp(vn)[1])
            pres = first
            if node.having_clause is not None:
                saved = self.group
                self.group = (ds, members)
                try:
                    hv = self.ev(node.having_clause.params if not isinstance(node.having_clause.params, list) else node.having_clause.params[0])
                finally:
                    self.group = saved
                pres = z3.And(pres, is_true(as_kind(hv[0], "bool")))
                if hv[0].dc is not None:
                    self.domain.append(z3.Implies(first, z3.Not(hv[0].dc)))
            rows.append(Row(pres, cols, rep.ord))
        if not gids:
            # ungrouped aggregate of an EMPTY operand (one datapoint or none) is not fixed by the statement
            self.domain.append(z3.Or(*[r.present for r in ds.rows]))
        vcomps = []
        for vn in self.virals(ds):
            vt = ds.comp(vn)[1]
            if self.vp_rule(vn)["agg"] == "avg":
                vt = "Number"
            vcomps.append((vn, vt, "Viral Attribute"))
        comps = [ds.comp(g) for g in gids] + out_meas + vcomps
        return RDS(comps, rows)

    def count_zero_region(self, first, c, grouped):
        """count over a group with no fully non-null datapoint: the engine documents NULL for grouped
        counts and 0 when ungrouped; the property text does not fix it -> outside the oracle."""
        self.domain.append(z3.Implies(first, c > 0))

    def grouping_ids(self, ds, node):
        if node.grouping_op is None:
            return []
        names = [g.value for g in node.grouping]
        if node.grouping_op == "group by":
            return [i for i in ds.ids() if i in names]
        if node.grouping_op == "group except":
            return [i for i in ds.ids() if i not in names]
        raise Unsupported("oracle grouping %s" % node.grouping_op)

    def c_aggr(self, node, ds):
        items = []
        gnode = None
        for ch in node.children:
            role = "Measure"
            a = ch
            if type(ch).__name__ == "UnaryOp":
                role = {"measure": "Measure", "attribute": "Attribute", "viral attribute": "Viral Attribute", "identifier": "Identifier"}[ch.op]
                a = ch.operand
            r_ = getattr(a.left, "role", None)
            if r_ is not None:
                role = {"MEASURE": "Measure", "ATTRIBUTE": "Attribute", "VIRAL_ATTRIBUTE": "Viral Attribute", "IDENTIFIER": "Identifier"}[r_.name]
            items.append((a.left.value, role, a.right))
            gnode = a.right
        gids = self.grouping_ids(ds, gnode)
        if gids:
            groups = self.group_rows(ds, gids)
        else:
            members = [r.present for r in ds.rows]
            groups = [(z3.Or(*members), ds.rows[0], members)]
        rows = []
        comps = [ds.comp(g) for g in gids]
        first_round = True
        for first, rep, members in groups:
            cols = {g: rep.cols[g] for g in gids}
            pres = first
            for name, role, aggnode in items:
                saved = self.group
                self.group = (ds, members)
                try:
                    v, ty = self.ev(aggnode)
                    if aggnode.having_clause is not None:
                        hc = aggnode.having_clause
                        hv = self.ev(hc.params if not isinstance(hc.params, list) else hc.params[0])
                        pres = z3.And(pres, is_true(as_kind(hv[0], "bool")))
                        if hv[0].dc is not None:
                            self.domain.append(z3.Implies(first, z3.Not(hv[0].dc)))
                finally:
                    self.group = saved
                cols[name] = v
                if first_round:
                    comps.append((name, ty, role))
            first_round = False
            rows.append(Row(pres, cols, rep.ord))
        if not gids:
            self.domain.append(z3.Or(*[r.present for r in ds.rows]))
        return RDS(comps, rows)

    # ------------------------------------------------------------------ analytic (window) functions
    def n_Analytic(self, node):
        if self.row is not None:
            ds, cur = self.row
            vals = self.analytic_over(node, ds, lambda r: self.in_row(ds, r, lambda: self.ev(node.operand)) if node.operand is not None else None)
            idx = [i for i, r in enumerate(ds.rows) if r is cur][0]
            return vals[idx]
        ds = self.ev(node.operand)
        if not isinstance(ds, RDS):
            raise Unsupported("oracle: analytic on a scalar")
        meas = ds.measures()
        comps = [c for c in ds.comps if c[2] == "Identifier"]
        rows = [Row(r.present, {i: r.cols[i] for i in ds.ids()}, r.ord) for r in ds.rows]
        types = {}
        for m in meas:
            vals = self.analytic_over(node, ds, lambda r, m=m: (r.cols[m], ds.comp(m)[1]))
            for row, (v, ty) in zip(rows, vals):
                row.cols[m] = v
                types[m] = ty
        for m in meas:
            name = m
            if node.op == "count" and len(meas) == 1:
                name = "int_var"
            elif len(meas) == 1:
                name = self.result_type_name(ds.comp(m)[1], types[m], True, m)
            if name != m:
                for row in rows:
                    row.cols[name] = row.cols.pop(m)
            comps.append((name, types[m], "Measure"))
        if self.virals(ds):
            raise Unsupported("oracle: analytic with viral attributes")
        return RDS(comps, rows)

    def analytic_over(self, node, ds, value_of):
        """-> list of (SV, type), one per row of ds: the analytic function over the row's partition and frame"""
        op = node.op
        n = len(ds.rows)
        ids = ds.ids()
        if node.partition_op in (None, "by"):
            pcols = list(node.partition_by or [])
        elif node.partition_op == "except":
            pcols = [i for i in ids if i not in set(node.partition_by or [])]
        elif node.partition_op == "except all":
            pcols = []
        else:
            raise Unsupported("oracle: partition %s" % node.partition_op)
        okeys = [(o.component, o.order) for o in (node.order_by or [])]
        rows = ds.rows
        part = [[z3.And(rows[j].present, *[same(rows[i].cols[c], rows[j].cols[c]) for c in pcols]) for j in range(n)] for i in range(n)]

        def before(a, b):
            res = FALSE
            for c, o in reversed(okeys):
                x, y = rows[a].cols[c], rows[b].cols[c]
                lt = (x.val < y.val) if o != "desc" else (y.val < x.val)
                if x.kind == "str":
                    lt = (x.val < y.val) if o != "desc" else (y.val < x.val)
                res = z3.Or(lt, z3.And(x.val == y.val, res))
            return res
        # precondition of the statement: the ordering is total (no ties, no null order keys) inside a partition
        for i in range(n):
            for c, o in okeys:
                self.domain.append(z3.Implies(rows[i].present, z3.Not(rows[i].cols[c].null)))
            for j in range(i + 1, n):
                if okeys:
                    self.domain.append(z3.Implies(part[i][j], z3.Or(*[rows[i].cols[c].val != rows[j].cols[c].val for c, o in okeys])))
        vals = [value_of(r) for r in rows]
        out = []
        w = node.window
        for i in range(n):
            pos = [z3.Sum([z3.If(z3.And(part[i][a], before(a, j)), 1, 0) for a in range(n) if a != j] or [z3.IntVal(0)]) for j in range(n)] if okeys else None
            if op in ("lag", "lead"):
                if not okeys:
                    raise Unsupported("oracle: lag/lead without order")
                k = node.params[0] if node.params else 1
                k = k.value if hasattr(k, "value") else k
                target = pos[i] - k if op == "lag" else pos[i] + k
                res = None
                hits = []
                for j in range(n):
                    v, ty = vals[j]
                    hit = z3.And(part[i][j], pos[j] == target)
                    hits.append(hit)
                    res = (SV(v.kind, z3.Or(z3.Not(hit), v.null), v.val) if res is None else ite(hit, v, res))
                if node.params and len(node.params) > 1 and node.params[1] is not None:
                    # the default applies only when there is NO datapoint at the offset; a datapoint with a null value gives null
                    d = node.params[1]
                    d = d.value if hasattr(d, "value") else d
                    res = ite(z3.Or(*hits), res, as_kind(lit(d), res.kind) if res.kind in ("int", "real") else lit(d))
                out.append((res, vals[i][1]))
                continue
            if op == "rank":
                if not okeys:
                    raise Unsupported("oracle: rank without order")
                out.append((SV("int", FALSE, pos[i] + 1), "Integer"))
                continue
            # frame membership
            if w is None or not okeys:
                frame = [TRUE] * n
                if w is not None and not okeys:
                    st, sp = self._bound(w.start, w.start_mode), self._bound(w.stop, w.stop_mode)
                    if (st, sp) not in ((("-inf",), ("cur",)), (("-inf",), ("+inf",))):
                        raise Unsupported("oracle: window without order by")
                    if (st, sp) == (("-inf",), ("cur",)):
                        # the parser's default window without any ordering: the frame depends on physical order
                        raise Unsupported("oracle: running window without order by is order dependent")
            else:
                st, sp = self._bound(w.start, w.start_mode), self._bound(w.stop, w.stop_mode)
                if str(w.type_).lower().startswith("data"):
                    def lo(j):
                        return TRUE if st == ("-inf",) else FALSE if st == ("+inf",) else pos[j] >= pos[i] + st[1]

                    def hi(j):
                        return TRUE if sp == ("+inf",) else FALSE if sp == ("-inf",) else pos[j] <= pos[i] + sp[1]
                    frame = [z3.And(lo(j), hi(j)) for j in range(n)]
                else:
                    if len(okeys) != 1:
                        raise Unsupported("oracle: range window with several order keys")
                    c, o = okeys[0]
                    sgn = -1 if o == "desc" else 1

                    def keyv(j):
                        v = rows[j].cols[c]
                        if v.kind not in ("int", "real"):
                            raise Unsupported("oracle: range window on %s" % v.kind)
                        return v.val * sgn

                    def lo(j):
                        return TRUE if st == ("-inf",) else FALSE if st == ("+inf",) else keyv(j) >= keyv(i) + st[1]

                    def hi(j):
                        return TRUE if sp == ("+inf",) else FALSE if sp == ("-inf",) else keyv(j) <= keyv(i) + sp[1]
                    frame = [z3.And(lo(j), hi(j)) for j in range(n)]
            members = [z3.And(part[i][j], frame[j]) for j in range(n)]
            if op in ("first_value", "last_value"):
                if not okeys:
                    raise Unsupported("oracle: first/last without order")
                res = None
                for j in range(n):
                    v, ty = vals[j]
                    if op == "first_value":
                        edge = z3.And(members[j], *[z3.Not(z3.And(members[a], pos[a] < pos[j])) for a in range(n) if a != j])
                    else:
                        edge = z3.And(members[j], *[z3.Not(z3.And(members[a], pos[a] > pos[j])) for a in range(n) if a != j])
                    res = (SV(v.kind, z3.Or(z3.Not(edge), v.null), v.val) if res is None else ite(edge, v, res))
                out.append((res, vals[i][1]))
                continue
            if op == "ratio_to_report":
                tot, _ = self.agg_value("sum", [(part[i][j], vals[j][0]) for j in range(n)], vals[i][1])
                x = as_kind(vals[i][0], "real")
                t = as_kind(tot, "real")
                self.may_err.append(z3.And(rows[i].present, z3.Not(t.null), t.val == 0))
                out.append((SV("real", z3.Or(x.null, t.null), x.val / t.val), "Number"))
                continue
            ty = vals[i][1] if vals[i] is not None else "Integer"
            if op == "count" and vals[i] is None:
                c_ = z3.Sum([z3.If(m, 1, 0) for m in members])
                out.append((SV("int", FALSE, c_), "Integer"))
                continue
            v, rt = self.agg_value(op, [(members[j], vals[j][0]) for j in range(n)], ty)
            if op == "count":
                v = SV("int", FALSE, v.val)      # analytic count of an empty frame is 0 (no NULLIF here)
            out.append((v, rt))
        return out

    @staticmethod
    def _bound(value, mode):
        mode = str(mode).lower()
        if "current" in mode or str(value).lower().startswith("current"):
            return ("cur", 0)
        unb = str(value).lower() == "unbounded" or (isinstance(value, int) and value < 0)
        if unb:
            return ("-inf",) if mode.startswith("preceding") else ("+inf",)
        return ("off", -int(value)) if mode.startswith("preceding") else ("off", int(value))

    # ------------------------------------------------------------------ joins
    def n_JoinOp(self, node):
        op = node.op
        operands = []
        for cl in node.clauses:
            if type(cl).__name__ == "BinOp" and cl.op == "as":
                operands.append((self.ev(cl.left), cl.right.value))
            else:
                ds = self.ev(cl)
                operands.append((ds, cl.value if hasattr(cl, "value") else None))
        using = [u for u in (node.using or [])]
        using = [u.value if hasattr(u, "value") else u for u in using]
        # relational join, left to right
        acc_ds, acc_alias = operands[0]
        # tuple representation: list of (present, {alias: Row}, ord)
        tuples = [(r.present, {acc_alias: r}, r.ord) for r in acc_ds.rows]
        seen = [(acc_ds, acc_alias)]
        for ds, alias in operands[1:]:
            if op == "cross_join":
                keys = []
            elif using:
                keys = using
            else:
                acc_ids = []
                for d, a in seen:
                    for i in d.ids():
                        if i not in acc_ids:
                            acc_ids.append(i)
                keys = [i for i in ds.ids() if i in acc_ids]

            def keyval(tp, k):
                """value of join key k on the accumulated side: first non-absent operand holding it"""
                val = None
                for d, a in seen:
                    if k in [c[0] for c in d.comps]:
                        rr = tp[1].get(a)
                        if rr is None:
                            continue
                        v = rr.cols[k]
                        val = v if val is None else ite(z3.Not(val.null), val, v)
                return val
            new = []
            matched_r = {j: FALSE for j in range(len(ds.rows))}
            for tp in tuples:
                any_match = FALSE
                for j, r in enumerate(ds.rows):
                    c = z3.And(tp[0], r.present, *[same(keyval(tp, k), r.cols[k]) for k in keys])
                    # keys are identifiers or non-null by the loader; null = null never matches in VTL joins
                    c = z3.And(c, *[z3.Not(r.cols[k].null) for k in keys])
                    any_match = z3.Or(any_match, c)
                    matched_r[j] = z3.Or(matched_r[j], c)
                    d = dict(tp[1])
                    d[alias] = r
                    new.append((c, d, tp[2] + r.ord))
                if op in ("left_join", "full_join"):
                    d = dict(tp[1])
                    d[alias] = None
                    new.append((z3.And(tp[0], z3.Not(any_match)), d, tp[2] + [z3.IntVal(-1)]))
            if op == "full_join":
                for j, r in enumerate(ds.rows):
                    d = {a: None for _, a in seen}
                    d[alias] = r
                    new.append((z3.And(r.present, z3.Not(matched_r[j])), d, [z3.IntVal(-1)] + r.ord))
            tuples = new
            seen.append((ds, alias))
        # output components: join keys/identifiers once; other components `alias#name` when the name
        # occurs in more than one operand, plain otherwise
        id_names = []
        for d, a in seen:
            for i in d.ids():
                if i not in id_names:
                    id_names.append(i)
        if op == "cross_join":
            key_like = set()
        else:
            key_like = set(id_names) | set(using)
        counts = {}
        for d, a in seen:
            for n, t, r in d.comps:
                counts[n] = counts.get(n, 0) + 1
        comps = []
        plan = []   # (out name, [(alias, comp name)])
        holders = {}
        for d, a in seen:
            for n, t, r in d.comps:
                holders.setdefault(n, []).append((a, r, t))
        merged = [n for n, hs in holders.items() if len(hs) >= 2 and all(r == "Viral Attribute" for _, r, _ in hs) and n not in key_like]
        for d, a in seen:
            for n, t, r in d.comps:
                if n in merged:
                    continue
                if n in key_like:
                    ex = [p for p in plan if p[0] == n]
                    if ex:
                        ex[0][1].append((a, n))
                    else:
                        plan.append((n, [(a, n)]))
                        comps.append((n, t, "Identifier" if n in id_names else r))
                elif counts[n] > 1:
                    plan.append(("%s#%s" % (a, n), [(a, n)]))
                    comps.append(("%s#%s" % (a, n), t, r))
                else:
                    plan.append((n, [(a, n)]))
                    comps.append((n, t, r))
        rows = []
        for pres, binds, o in tuples:
            cols = {}
            for out, srcs in plan:
                val = None
                for a, n in srcs:
                    rr = binds.get(a)
                    if rr is None:
                        kind = None
                        for d, aa in seen:
                            if aa == a:
                                kind = KIND_OF_TYPE[d.comp(n)[1]]
                        v = NULL(kind)
                    else:
                        v = rr.cols[n]
                    val = v if val is None else ite(z3.Not(val.null), val, v)
                cols[out] = val
            for n in merged:
                acc = None
                for a, r, t in holders[n]:
                    rr = binds.get(a)
                    v = NULL(KIND_OF_TYPE[t]) if rr is None else rr.cols[n]
                    acc = v if acc is None else self.vp_pair(self.vp_rule(n), acc, v)
                cols[n] = acc
            rows.append(Row(pres, cols, o))
        for n in merged:
            t = holders[n][0][2]
            if self.vp_rule(n)["agg"] == "avg":
                t = "Number"
            comps.append((n, t, "Viral Attribute"))
        res = RDS(comps, rows)
        if getattr(node, "body", None):
            raise Unsupported("oracle: join body")
        return res
