"""Solver queries of engine A and replay of their models through the real run().

equivalence(case, oracle)   : exists valid inputs (inside the oracle's domain) such that the symbolic SQL
                              result differs from the oracle result as a keyed set, or the error
                              behaviour differs  -> unsat = holds within the bound
reach(case)                 : the reachability twin (some output row present) must be sat
replay(case, model, ...)    : concrete DataFrames -> real run() -> compared with the oracle evaluated
                              on the same concrete inputs (uninterpreted builtins get their real meaning)
"""
import fractions
import math
import time

import z3

from vt.sqlsmt.sym import simp as _simp

from vt.sqlsmt import harness as H
from vt.sqlsmt.sym import FALSE, TRUE, Unsupported, same, same_dc

TIMEOUT_MS = 20000


def rows_differ(T, O, cols):
    """Bool: the present rows of T and O differ as sets over `cols` (+ duplicates in T by all cols ignored)"""
    def eq(a, b):
        return z3.And(*[same_dc(a.cols[c], b.cols[c]) for c in cols]) if cols else TRUE
    miss_t = [z3.And(r.present, z3.Not(z3.Or(*[z3.And(o.present, eq(r, o)) for o in O.rows]) if O.rows else FALSE)) for r in T.rows]
    miss_o = [z3.And(o.present, z3.Not(z3.Or(*[z3.And(r.present, eq(r, o)) for r in T.rows]) if T.rows else FALSE)) for o in O.rows]
    return z3.Or(*(miss_t + miss_o)) if (miss_t or miss_o) else FALSE


def dup_keys(T, ids):
    out = []
    for i, a in enumerate(T.rows):
        for b in T.rows[i + 1:]:
            out.append(z3.And(a.present, b.present, *[same(a.cols[c], b.cols[c]) for c in ids]))
    return z3.Or(*out) if out else FALSE


class Query:
    def __init__(self, case, name, ords, ref, timeout_ms=TIMEOUT_MS):
        """ords: RDS of the oracle for result `name`"""
        self.case, self.name, self.O, self.ref = case, name, ords, ref
        self.timeout_ms = timeout_ms
        ctx = case.ctx
        self.T = case.results[name]
        self.base = list(ctx.assume) + list(ref.domain if ref is not None else [])
        self.nonfinite = ctx.error_flag(lambda t: t.startswith("nonfinite"))
        self.sql_err = ctx.error_flag(lambda t: not t.startswith("nonfinite"))
        self.must = z3.Or(*ref.must_err) if ref is not None and ref.must_err else FALSE
        self.may = z3.Or(self.must, *ref.may_err) if ref is not None and ref.may_err else self.must

    def structure_mismatch(self):
        t, o = list(self.T.cols), [c[0] for c in self.O.comps]
        sem = self.case.pipe.output_datasets.get(self.name)
        if sem is not None:
            # run() projects the result table on the components semantic analysis predicts
            t = [c for c in t if c in sem.components]
        if set(t) != set(o):
            return "columns differ: SQL %s, VTL reference %s" % (t, o)
        return None

    def _spec(self, f):
        """specialise a formula to the shard's fixed indicator (substitute + simplify kills the other CASE branches)"""
        ind = self.case.opts.get("ind")
        if not ind:
            return f
        subs = [(v, z3.StringVal(ind)) for v in self.case.ctx.input_vars if str(v).endswith(".ind")]
        return _simp(z3.substitute(f, *subs)) if subs else f

    def solver(self):
        s = z3.Solver()
        s.set("timeout", self.timeout_ms)
        s.add(*[self._spec(b) for b in self.base])
        s.add(self._spec(z3.Not(self.nonfinite)))
        return s

    def bad(self):
        cols = [c[0] for c in self.O.comps]
        ids = [c[0] for c in self.O.comps if c[2] == "Identifier"]
        differ = z3.Or(rows_differ(self.T, self.O.table(), cols), dup_keys(self.T, ids))
        return z3.Or(z3.And(self.must, z3.Not(self.sql_err)),
                     z3.And(self.sql_err, z3.Not(self.may)),
                     z3.And(z3.Not(self.sql_err), z3.Not(self.may), differ))

    def disjuncts(self):
        """the cases of bad(), one query each (used when the single query is not decided)"""
        cols = [c[0] for c in self.O.comps]
        ids = [c[0] for c in self.O.comps if c[2] == "Identifier"]
        ok = z3.And(z3.Not(self.sql_err), z3.Not(self.may))
        out = [z3.And(self.must, z3.Not(self.sql_err)), z3.And(self.sql_err, z3.Not(self.may)), z3.And(ok, dup_keys(self.T, ids))]
        if len(cols) > 1:
            # sound because both sides are keyed by the identifiers (duplicate keys on either side are cases of their own)
            out.append(z3.And(ok, dup_keys(self.O.table(), ids)))
            out += [z3.And(ok, rows_differ(self.T, self.O.table(), ids + [c])) for c in cols if c not in ids]
            out.append(z3.And(ok, rows_differ(self.T, self.O.table(), ids)))
        else:
            out.append(z3.And(ok, rows_differ(self.T, self.O.table(), cols)))
        return out

    def check(self, extra=()):
        s = self.solver()
        s.add(self._spec(self.bad()))
        s.add(*extra)
        t = time.time()
        r = s.check()
        if r == z3.unknown and not extra:
            # decide the cases of the disjunction separately: two results differ iff they differ on the identifiers or on the identifiers + one component
            verdicts = []
            for d in self.disjuncts():
                s2 = self.solver()
                s2.add(self._spec(d))
                r2 = s2.check()
                verdicts.append(r2)
                if r2 == z3.sat:
                    return "sat", s2.model(), time.time() - t
            if all(v == z3.unsat for v in verdicts):
                return "unsat", None, time.time() - t
        dt = time.time() - t
        return str(r), (s.model() if r == z3.sat else None), dt

    def reach(self):
        s = self.solver()
        s.add(self._spec(z3.Or(*[r.present for r in self.T.rows])) if self.T.rows else FALSE)
        t = time.time()
        r = s.check()
        return str(r), time.time() - t

    def small_model(self, model):
        """Try to find a friendlier counterexample: integer-valued Numbers, small magnitudes."""
        extra = []
        for v in self.case.ctx.input_vars:
            if v.sort() == z3.RealSort():
                extra += [z3.ToReal(z3.ToInt(v)) == v, v >= -8, v <= 8]
            elif v.sort() == z3.IntSort() and ".o" not in str(v):
                extra += [v >= -8, v <= 8]
        r, m, _ = self.check(extra)
        return m if r == "sat" else model


# ---------------------------------------------------------------------- concrete evaluation with real builtins
def _f(x):
    if z3.is_int_value(x):
        return x.as_long()
    if z3.is_rational_value(x):
        return fractions.Fraction(x.numerator_as_long(), x.denominator_as_long())
    if z3.is_algebraic_value(x):
        return float(x.approx(20).as_fraction())
    if z3.is_string_value(x):
        return x.as_string()
    if z3.is_true(x):
        return True
    if z3.is_false(x):
        return False
    raise ValueError(x)


def _real(v):
    f = fractions.Fraction(v).limit_denominator(10 ** 12)
    return z3.RealVal("%d/%d" % (f.numerator, f.denominator))


def _round_half_away(x, d):
    q = fractions.Fraction(10) ** int(d)
    y = fractions.Fraction(x) * q
    a = abs(y)
    fl = math.floor(a)
    n = fl + 1 if a - fl >= fractions.Fraction(1, 2) else fl
    return (n if y >= 0 else -n) / q


def _round_old(x, d):
    q = fractions.Fraction(10) ** int(d)
    y = fractions.Fraction(x) * q
    fl = math.floor(y)
    r = y - fl
    if y >= 0:
        n = fl + 1 if r >= fractions.Fraction(1, 2) else fl
    else:
        n = fl if r <= fractions.Fraction(1, 2) else fl + 1
        n = fl + 1 if r > fractions.Fraction(1, 2) else fl
        if r == fractions.Fraction(1, 2):
            n = fl  # half away from zero for negatives
    return n / q


def _trunc(x, d):
    q = fractions.Fraction(10) ** int(d)
    y = fractions.Fraction(x) * q
    n = math.floor(y) if y >= 0 else math.ceil(y)
    return n / q


UF_IMPL = {
    "uf_upper": lambda s: z3.StringVal(s.upper()),
    "uf_lower": lambda s: z3.StringVal(s.lower()),
    "uf_trim": lambda s: z3.StringVal(s.strip(" ")),
    "uf_ltrim": lambda s: z3.StringVal(s.lstrip(" ")),
    "uf_rtrim": lambda s: z3.StringVal(s.rstrip(" ")),
    "uf_round": lambda x, d: _real(_round_half_away(x, d)),
    "uf_trunc": lambda x, d: _real(_trunc(x, d)),
    "uf_exp": lambda x: _real(math.exp(float(x))),
    "uf_ln": lambda x: _real(math.log(float(x))) if x > 0 else None,
    "uf_sqrt": lambda x: _real(math.sqrt(float(x))) if x >= 0 else None,
    "uf_power": lambda x, y: _real(math.pow(float(x), float(y))),
    "uf_log": lambda b, x: _real(math.log(float(x), float(b))) if x > 0 and b > 0 and b != 1 else None,
    "uf_int_to_str": lambda i: z3.StringVal(str(i)),
    "uf_replace": lambda a, b, c: z3.StringVal(a.replace(b, c)) if b != "" else None,
    "uf_sq": lambda x: _real(fractions.Fraction(x) ** 2),
    "uf_var_pop": lambda n, s_, q: _real(fractions.Fraction(q) / n - (fractions.Fraction(s_) / n) ** 2) if n > 0 else None,
    "uf_var_samp": lambda n, s_, q: _real((fractions.Fraction(q) - fractions.Fraction(s_) ** 2 / n) / (n - 1)) if n > 1 else None,
}


def ceval(term, subs, memo=None):
    """Concrete value of `term` under the input substitution, giving uninterpreted builtins their real meaning.
    Returns a z3 value or None when something stays uninterpreted."""
    t = _simp(z3.substitute(term, *subs))
    memo = {} if memo is None else memo

    def go(x):
        if H._is_value(x):
            return x
        k = x.get_id()
        if k in memo:
            return memo[k]
        res = None
        if z3.is_app(x) and x.decl().kind() == z3.Z3_OP_ITE:
            c = go(x.arg(0))
            if c is not None and (z3.is_true(c) or z3.is_false(c)):
                res = go(x.arg(1) if z3.is_true(c) else x.arg(2))
                memo[k] = res
                return res
        if z3.is_app(x) and x.decl().kind() in (z3.Z3_OP_AND, z3.Z3_OP_OR):
            isand = x.decl().kind() == z3.Z3_OP_AND
            vals = [go(c) for c in x.children()]
            if any(v is not None and (z3.is_false(v) if isand else z3.is_true(v)) for v in vals):
                res = z3.BoolVal(not isand)
                memo[k] = res
                return res
        if z3.is_app(x) and x.num_args() > 0:
            args = [go(c) for c in x.children()]
            if all(a is not None for a in args):
                d = x.decl()
                if d.kind() == z3.Z3_OP_UNINTERPRETED:
                    base = d.name().rsplit("_", len(args) + 1)[0] if False else None
                    name = d.name()
                    impl = None
                    for key, fn in UF_IMPL.items():
                        if name.startswith(key + "_"):
                            impl = fn
                    if impl is not None and all(H._is_value(a) for a in args):
                        try:
                            res = impl(*[_f(a) for a in args])
                        except (ValueError, OverflowError, ZeroDivisionError):
                            res = None
                else:
                    try:
                        res = _simp(d(*args))
                        if not H._is_value(res):
                            res = go2(res)
                    except z3.Z3Exception:
                        res = None
        memo[k] = res
        return res

    def go2(x):
        # one more level for terms simplify could not close (e.g. If over uninterpreted pieces)
        return x if H._is_value(x) else None
    return go(t)


def model_subs(case, model):
    subs = []
    ind = case.opts.get("ind")
    for v in case.ctx.input_vars:
        if ind and str(v).endswith(".ind"):
            subs.append((v, z3.StringVal(ind)))      # the shard's fixed indicator (substituted away in the query)
        else:
            subs.append((v, model.eval(v, model_completion=True)))
    return subs


def expected_rows(case, O, subs):
    """Oracle result under concrete inputs -> (list of dict col->python value) or None if not evaluable"""
    out = []
    memo = {}
    for r in O.rows:
        p = ceval(r.present, subs, memo)
        if p is None:
            return None
        if not z3.is_true(p):
            continue
        d = {}
        for c, ty, role in O.comps:
            sv = r.cols[c]
            if sv.dc is not None:
                dcv = ceval(sv.dc, subs, memo)
                if dcv is None or z3.is_true(dcv):
                    d[c] = ANY
                    continue
            if sv.kind == "null":
                d[c] = None
                continue
            nl = ceval(sv.null, subs, memo)
            if nl is None:
                return None
            if z3.is_true(nl):
                d[c] = None
                continue
            if sv.kind == "tp":
                parts = [ceval(sv.fields[k].val, subs, memo) for k in ("year", "ind", "num")]
                if any(x is None for x in parts):
                    return None
                d[c] = ["tp"] + [_f(x) for x in parts]
                continue
            if sv.kind == "iv":
                parts = [ceval(sv.fields[k].val, subs, memo) for k in ("d1", "d2")]
                if any(x is None for x in parts):
                    return None
                d[c] = H.render_iv(_f(parts[0]), _f(parts[1]))
                continue
            v = ceval(sv.val, subs, memo)
            if v is None:
                return None
            d[c] = ["date", _f(v)] if sv.kind == "date" else _f(v)
        out.append(d)
    return out


def frames(case, subs):
    import pandas as pd
    smap = {k.get_id(): v for k, v in subs}

    def value_of(term):
        v = smap.get(term.get_id())
        if v is None:
            v = _simp(z3.substitute(term, *subs))
        return _f(v)
    cin = case.concrete_inputs(value_of)
    dfs = {}
    for name, t in case.inputs.items():
        cols = {}
        for cn, ty, role, nl in t.comps:
            vals = []
            for d in cin[name]:
                v = d[cn]
                if isinstance(v, fractions.Fraction):
                    v = float(v)
                if ty == "Date" and v is not None:
                    v = H._date_of(v).isoformat()
                vals.append(v)
            cols[cn] = pd.Series(vals, dtype=object)
        dfs[name] = pd.DataFrame(cols)
    return cin, dfs


ANY = "<any>"


def _as_tp(v):
    import re
    if isinstance(v, (list, tuple)) and v and v[0] == "tp":
        y, i, n = v[1], v[2], v[3]
        return (y, i, 1 if i == "A" else n)
    if isinstance(v, str):
        m = re.fullmatch(r"(\d{4})A?", v)
        if m:
            return (int(m.group(1)), "A", 1)
        m = re.fullmatch(r"(\d{4})-?([SQMWD])(\d+)", v)
        if m:
            return (int(m.group(1)), m.group(2), int(m.group(3)))
    return None


def _as_days(v):
    import datetime
    if isinstance(v, (list, tuple)) and v and v[0] == "date":
        return int(v[1])
    if isinstance(v, str):
        try:
            return (datetime.date.fromisoformat(v[:10]) - datetime.date(1970, 1, 1)).days
        except ValueError:
            return None
    if isinstance(v, (datetime.datetime, datetime.date)):
        d = v.date() if isinstance(v, datetime.datetime) else v
        return (d - datetime.date(1970, 1, 1)).days
    return None


def _close(a, b):
    if a == ANY or b == ANY:
        return True
    for x, y in ((a, b), (b, a)):
        if isinstance(x, (list, tuple)) and x and x[0] == "tp":
            return y is not None and _as_tp(x) == _as_tp(y)
        if isinstance(x, (list, tuple)) and x and x[0] == "date":
            return y is not None and _as_days(x) == _as_days(y)
    if a is None or b is None:
        return a is None and b is None
    if isinstance(a, bool) or isinstance(b, bool):
        return bool(a) == bool(b) and isinstance(a, bool) and isinstance(b, bool)
    if isinstance(a, str) or isinstance(b, str):
        return a == b
    if isinstance(a, int) and isinstance(b, int):
        return a == b          # Integer values compare exactly (int64 range: a float comparison would hide a lost unit)
    a, b = float(a), float(b)
    if math.isnan(a) or math.isnan(b):
        return False
    return abs(a - b) <= 1e-6 * max(1.0, abs(a), abs(b))


def compare(expected, got_ds, O):
    """expected: list of dicts; got_ds: vtlengine Dataset.  -> None if equal else description"""
    from vt import realrun as R
    ecols = [c[0] for c in O.comps]
    gcols = list(got_ds.data.columns)
    if set(ecols) != set(gcols):
        return "columns: expected %s, run() returned %s" % (ecols, gcols)
    got = []
    for _, row in got_ds.data.iterrows():
        got.append({c: R._norm(row[c]) for c in gcols})
    if len(got) != len(expected):
        return "datapoints: expected %d %s, run() returned %d %s" % (len(expected), expected, len(got), got)
    used = set()
    for e in expected:
        hit = None
        for i, g in enumerate(got):
            if i in used:
                continue
            if all(_close(e[c], g[c]) for c in ecols):
                hit = i
                break
        if hit is None:
            return "expected datapoint %s not returned; run() returned %s" % (e, got)
        used.add(hit)
    return None


def replay(case, query, model):
    """-> dict(status= 'reproduced' | 'not_reproduced' | 'inconclusive', ...)"""
    from vt import realrun as R
    from vtlengine.Exceptions import VTLEngineException
    subs = model_subs(case, model)
    cin, dfs = frames(case, subs)
    memo = {}
    must = ceval(query.must, subs, memo)
    may = ceval(query.may, subs, memo)
    exp_rows = expected_rows(case, query.O, subs)
    info = dict(inputs=H._jsonable(cin), script=_render(case.ast))
    try:
        res = R.run_ast(case.ast, case.struct_dict, dfs, scalar_values=case.scalar_values or None)
    except VTLEngineException as e:
        info["observed"] = "VTL error %s: %s" % (type(e).__name__, str(e)[:200])
        if may is not None and z3.is_true(may):
            info["status"] = "not_reproduced"
            return info
        info["expected"] = H._jsonable(exp_rows)
        info["status"] = "reproduced" if (may is not None and exp_rows is not None) else "inconclusive"
        info["what"] = "run() raised a VTL error where the reference defines a result"
        return info
    except Exception as e:
        info["observed"] = "raw %s: %s" % (type(e).__name__, str(e)[:200])
        info["expected"] = H._jsonable(exp_rows)
        info["status"] = "reproduced"
        info["what"] = "run() raised a raw (non-VTL) error"
        info["raw_error"] = True
        return info
    got = res[query.name]
    if must is not None and z3.is_true(must):
        info["observed"] = "run() returned a result"
        info["expected"] = "VTL runtime error"
        info["status"] = "reproduced"
        info["what"] = "no runtime error where VTL requires one"
        return info
    if may is not None and z3.is_true(may):
        info["status"] = "not_reproduced"
        return info
    if exp_rows is None:
        info["status"] = "inconclusive"
        return info
    from vtlengine.Model import Scalar
    if isinstance(got, Scalar):
        gv = R._norm(got.value)
        ev = exp_rows[0]["value"] if exp_rows else None
        info["expected"], info["observed"] = H._jsonable(ev), gv
        if _close(ev, gv):
            info["status"] = "not_reproduced"
        else:
            info["status"] = "reproduced"
            info["what"] = "scalar value: expected %r, run() returned %r" % (H._jsonable(ev), gv)
        return info
    diff = compare(exp_rows, got, query.O)
    info["expected"] = H._jsonable(exp_rows)
    info["observed"] = [{c: R._norm(v) for c, v in row.items()} for row in got.data.to_dict("records")]
    if diff is None:
        info["status"] = "not_reproduced"
        # a result cell that the encoding holds as a non-period spelling (marker number) reaches the user only through the output
        # representation macro, which may repair it: the run() output cannot confirm or refute the difference
        for r in query.T.rows:
            for c, sv in r.cols.items():
                if sv.kind == "tp":
                    n = ceval(sv.fields["num"].val, subs, memo)
                    p = ceval(r.present, subs, memo)
                    if n is not None and z3.is_int_value(n) and n.as_long() < 0 and p is not None and z3.is_true(p):
                        info["status"] = "inconclusive"
                        info["note"] = "non-canonical period spelling inside the engine; hidden by the output representation"
    else:
        info["status"] = "reproduced"
        info["what"] = diff
    return info


def _render(ast):
    from vt.astb import render
    return render(ast)
