"""C11 harness core: real promotion functions / real operator classes with symbolic type indices.
The oracle is the implicit-cast table of docs/data_types.rst parsed at import time."""
from vt import boot

boot.boot()
from vt import docs  # noqa: E402
import vtlengine.Operators as O  # noqa: E402
from vtlengine.DataTypes import (  # noqa: E402
    Boolean, Date, Duration, Integer, Null, Number, String, TimeInterval, TimePeriod,
    binary_implicit_promotion, check_binary_implicit_promotion,
    check_unary_implicit_promotion, unary_implicit_promotion,
)
from vtlengine.Exceptions import SemanticError  # noqa: E402
from vtlengine.Model import Component, DataComponent, Dataset, Role, Scalar  # noqa: E402
from vtlengine.Utils import BINARY_MAPPING, UNARY_MAPPING  # noqa: E402

TYPES = [String, Number, Integer, TimeInterval, Date, TimePeriod, Duration, Boolean, Null]
DOCNAME = {"String": String, "Number": Number, "Integer": Integer, "Time": TimeInterval, "Date": Date,
           "Time_Period": TimePeriod, "Duration": Duration, "Boolean": Boolean}
_m = docs.matrix("docs/data_types.rst", "Implicit Casting (Automatic)")
IMP = {t: set() for t in TYPES}
for (f, to), cell in _m.items():
    if cell == "|y|":
        IMP[DOCNAME[f]].add(DOCNAME[to])
IMP[Null] = set(TYPES)  # "Null to any type: Null is compatible with every type."

BIN = list(BINARY_MAPPING.items())
UN = list(UNARY_MAPPING.items())
COMMUTATIVE = {"+", "*", "and", "or", "xor", "=", "<>"}


def pick(i, n):
    """Concretise a symbolic index by explicit comparisons (one solver branch per value: exhaustive)."""
    for k in range(n):
        if i == k:
            return k
    raise IndexError(i)


def _same(cls, base, names):
    return all(getattr(getattr(cls, m), "__func__", None) is getattr(getattr(base, m), "__func__", None) for m in names)


def is_generic_binary(cls):
    """Inherits the generic Binary validation unmodified and declares an operand/result type."""
    return (issubclass(cls, O.Binary) and _same(cls, O.Binary, ("validate", "type_validation", "validate_type_compatibility"))
            and (cls.type_to_check is not None or cls.return_type is not None))


def is_generic_unary(cls):
    return issubclass(cls, O.Unary) and _same(cls, O.Unary, ("validate", "type_validation", "validate_type_compatibility"))


def doc_binary(L, R, T, RT):
    """-> None when the documented table rejects, else the documented result type."""
    common = IMP[L] & IMP[R]
    if T is not None:
        if T not in common:
            return None
    elif not common:
        return None
    if RT is not None:
        return RT
    if L is R:
        return L
    if L is Null:
        return R
    if R is Null:
        return L
    if {L, R} == {Integer, Number}:
        return Number
    if R in IMP[L]:
        return R
    if L in IMP[R]:
        return L
    if T is not None:
        return T
    c = common - {Null}
    return next(iter(c)) if len(c) == 1 else "ambiguous"


def doc_unary(X, T, RT):
    if T is not None and T not in IMP[X]:
        return None
    if RT is not None:
        return RT
    if T is not None and not issubclass(X, T) and not issubclass(T, X):
        return T
    return X


def _call(f, *a):
    try:
        return ("ok", f(*a))
    except SemanticError:
        return ("rej", None)
    except Exception as e:  # raw error: neither accept nor documented rejection
        return ("raw", type(e).__name__)


def _ds(name, t, two_ids=False, nm=1):
    comps = {"Id_1": Component(name="Id_1", data_type=Integer, role=Role.IDENTIFIER, nullable=False)}
    if two_ids:
        comps["Id_2"] = Component(name="Id_2", data_type=String, role=Role.IDENTIFIER, nullable=False)
    for k in range(nm):
        comps["Me_%d" % (k + 1)] = Component(name="Me_%d" % (k + 1), data_type=t, role=Role.MEASURE, nullable=True)
    return Dataset(name=name, components=comps, data=None)


def _measure_types(ds):
    return [m.data_type for m in ds.get_measures()]


def binary_op_dataset(i, l, r, shape, nm):
    """Dataset-level validation with identifier shapes (0 equal, 1 left subset, 2 right subset) and 1-2 measures."""
    tok, cls = BIN[i]
    if not is_generic_binary(cls):
        return True
    L, R = TYPES[pick(l, 9)], TYPES[pick(r, 9)]
    shape, nm = pick(shape, 3), pick(nm, 3)
    want = doc_binary(L, R, cls.type_to_check, cls.return_type)
    d = _call(cls.dataset_validation, _ds("DS_1", L, shape == 2, nm), _ds("DS_2", R, shape == 1, nm))
    if d[0] == "raw":
        return False
    if want is None:
        return d[0] == "rej"
    if nm == 1 and d[0] != "ok":
        return False
    if d[0] == "ok" and want != "ambiguous":
        ts = _measure_types(d[1])
        if len(ts) != nm or any(t is not want for t in ts):
            return False
    if tok in COMMUTATIVE:
        # same operands in the other order: same verdict and same measure types
        q = _call(cls.dataset_validation, _ds("DS_2", R, shape == 1, nm), _ds("DS_1", L, shape == 2, nm))
        if q[0] == "raw" or (nm == 1 and q[0] != d[0]):
            return False
        # nm == 2: acceptance additionally depends on the engine's multi-measure rule 1-1-1-4 (outside the oracle)
        if d[0] == "ok" and q[0] == "ok" and [t for t in _measure_types(q[1])] != [t for t in _measure_types(d[1])]:
            return False
    return True


def _dc(name, t):
    return DataComponent(name=name, data_type=t, data=None, role=Role.MEASURE, nullable=True)


def _sc(name, t):
    return Scalar(name=name, data_type=t, value=None, nullable=True)


def _measure_type(ds):
    ms = ds.get_measures()
    return ms[0].data_type if len(ms) == 1 else None


# ---- properties over the bare promotion functions --------------------------------------------
def promo_check_agrees(l, r, t, rt):
    L, R = TYPES[pick(l, 9)], TYPES[pick(r, 9)]
    t = pick(t, 10)
    T = None if t == 9 else TYPES[t]
    rt = pick(rt, 10)
    RT = None if rt == 9 else TYPES[rt]
    ok = check_binary_implicit_promotion(L, R, T, RT)
    st, _ = _call(binary_implicit_promotion, L, R, T, RT)
    return st != "raw" and bool(ok) == (st == "ok")


def promo_unary_check_agrees(x, t, rt):
    X = TYPES[pick(x, 9)]
    t = pick(t, 10)
    T = None if t == 9 else TYPES[t]
    rt = pick(rt, 10)
    RT = None if rt == 9 else TYPES[rt]
    ok = check_unary_implicit_promotion(X, T, RT)
    st, _ = _call(unary_implicit_promotion, X, T, RT)
    return st != "raw" and bool(ok) == (st == "ok")


def promo_matches_doc(l, r, t, rt):
    """With a type_to_check (the way every generic operator calls it) accept/result follow the docs."""
    L, R, T = TYPES[pick(l, 9)], TYPES[pick(r, 9)], TYPES[pick(t, 9)]
    rt = pick(rt, 10)
    RT = None if rt == 9 else TYPES[rt]
    want = doc_binary(L, R, T, RT)
    st, got = _call(binary_implicit_promotion, L, R, T, RT)
    if st == "raw":
        return False
    if want is None:
        return st == "rej"
    return st == "ok" and (want == "ambiguous" or got is want)


def promo_unary_matches_doc(x, t, rt):
    X = TYPES[pick(x, 9)]
    t = pick(t, 10)
    T = None if t == 9 else TYPES[t]
    rt = pick(rt, 10)
    RT = None if rt == 9 else TYPES[rt]
    want = doc_unary(X, T, RT)
    st, got = _call(unary_implicit_promotion, X, T, RT)
    if st == "raw":
        return False
    if want is None:
        return st == "rej"
    return st == "ok" and got is want


# ---- properties over the operator registry -------------------------------------------------------
def binary_op(i, l, r):
    tok, cls = BIN[i]
    L, R = TYPES[pick(l, 9)], TYPES[pick(r, 9)]
    T, RT = cls.type_to_check, cls.return_type
    if not is_generic_binary(cls):
        return True
    # (a) the check agrees with the promotion
    c = _call(cls.validate_type_compatibility, L, R)
    p = _call(cls.type_validation, L, R)
    if c[0] == "raw" or p[0] == "raw":
        return False
    if c[0] == "ok" and bool(c[1]) != (p[0] == "ok"):
        return False
    # (b) accept <=> documented, result type documented, at scalar / component / dataset level
    want = doc_binary(L, R, T, RT)
    if want is None:
        if p[0] != "rej":
            return False
    elif p[0] != "ok" or (want != "ambiguous" and p[1] is not want):
        return False
    s = _call(cls.scalar_validation, _sc("a", L), _sc("b", R))
    k = _call(cls.component_validation, _dc("a", L), _dc("b", R))
    ks = _call(cls.component_scalar_validation, _dc("a", L), _sc("b", R))
    d = _call(cls.dataset_validation, _ds("DS_1", L), _ds("DS_2", R))
    dsc = _call(cls.dataset_scalar_validation, _ds("DS_1", L), _sc("b", R))
    for st, v in (s, k, ks, d, dsc):
        if st == "raw":
            return False
        if (st == "ok") != (want is not None):
            return False
    if want is not None and want != "ambiguous":
        if s[1].data_type is not want or k[1].data_type is not want or ks[1].data_type is not want:
            return False
        if _measure_type(d[1]) is not want or _measure_type(dsc[1]) is not want:
            return False
    # (c) commutative operators: same result type in both operand orders
    if tok in COMMUTATIVE:
        q = _call(cls.type_validation, R, L)
        if q[0] != p[0] or (p[0] == "ok" and q[1] is not p[1]):
            return False
    return True


def binary_commutes_bespoke(i, l, r):
    """Commutative operators with bespoke validation (= <>): order independence at scalar level."""
    tok, cls = BIN[i]
    if tok not in COMMUTATIVE:
        return True
    L, R = TYPES[pick(l, 9)], TYPES[pick(r, 9)]
    a = _call(cls.validate, _sc("a", L), _sc("b", R))
    b = _call(cls.validate, _sc("a", R), _sc("b", L))
    if a[0] == "raw" or b[0] == "raw" or a[0] != b[0]:
        return False
    if a[0] == "ok":
        if a[1].data_type is not b[1].data_type:
            return False
        want = doc_binary(L, R, cls.type_to_check, cls.return_type)
        if want is None or (want != "ambiguous" and a[1].data_type is not want):
            return False
    else:
        if doc_binary(L, R, cls.type_to_check, cls.return_type) is not None:
            return False
    return True


def unary_op(i, x):
    tok, cls = UN[i]
    X = TYPES[pick(x, 9)]
    T, RT = cls.type_to_check, cls.return_type
    if not is_generic_unary(cls):
        return True
    c = _call(cls.validate_type_compatibility, X)
    p = _call(cls.type_validation, X)
    if c[0] == "raw" or p[0] == "raw":
        return False
    if c[0] == "ok" and bool(c[1]) != (p[0] == "ok"):
        return False
    want = doc_unary(X, T, RT)
    if (want is None) != (p[0] == "rej"):
        return False
    if want is not None and p[1] is not want:
        return False
    s = _call(cls.scalar_validation, _sc("a", X))
    k = _call(cls.component_validation, _dc("a", X))
    d = _call(cls.dataset_validation, _ds("DS_1", X))
    for st, v in (s, k, d):
        if st == "raw" or (st == "ok") != (want is not None):
            return False
    if want is not None:
        if s[1].data_type is not want or k[1].data_type is not want or _measure_type(d[1]) is not want:
            return False
    return True


def warm(full=True):
    """Concrete warm-up of every code path (lazy imports etc.) before CrossHair traces."""
    bad = []
    rng = range(9) if full else (1, 7)
    for i, (tok, cls) in enumerate(BIN):
        for l in rng:
            for r in rng:
                try:
                    if not binary_op(i, l, r) or not binary_commutes_bespoke(i, l, r):
                        bad.append(("bin", tok, l, r))
                    for sh in range(3):
                        for nm in (1, 2):
                            if not binary_op_dataset(i, l, r, sh, nm):
                                bad.append(("bind", tok, l, r, sh, nm))
                except Exception as e:
                    bad.append(("bin!", tok, l, r, type(e).__name__))
    for i, (tok, cls) in enumerate(UN):
        for x in rng:
            try:
                if not unary_op(i, x):
                    bad.append(("un", tok, x))
            except Exception as e:
                bad.append(("un!", tok, x, type(e).__name__))
    return bad


if __name__ == "__main__":
    print(warm())
