"""C33 harness (CrossHair): the DataFrame registration helpers of the loader do not depend on the row order or the column
order of the input frame.  The real _detect_date_type_overrides and _build_dataframe_select_columns run on a minimal
duck-typed frame (columns / __getitem__ / dropna / iteration are all the real functions use); cell classes, the row
permutation and the column order are symbolic indices."""
from vt import boot

boot.boot()
import vtlengine.duckdb_transpiler.io._io as IO  # noqa: E402
from vtlengine.DataTypes import Date, Integer, Number  # noqa: E402
from vtlengine.Model import Component, Role  # noqa: E402

CLASSES = [None, "2021-03-01", "2021-03-02T12:30:00", "2021-03-02 12:30:00", "2021-03-02X12:30:00", 20210301]
PERMS = [(0, 1, 2), (0, 2, 1), (1, 0, 2), (1, 2, 0), (2, 0, 1), (2, 1, 0)]
COMPS = {"Id_1": Component(name="Id_1", data_type=Integer, role=Role.IDENTIFIER, nullable=False),
         "Me_d": Component(name="Me_d", data_type=Date, role=Role.MEASURE, nullable=True),
         "Me_n": Component(name="Me_n", data_type=Number, role=Role.MEASURE, nullable=True)}


class Series:
    def __init__(self, vals):
        self.vals = list(vals)

    def dropna(self):
        return Series([v for v in self.vals if v is not None])

    def __iter__(self):
        return iter(self.vals)

    def first_valid_index(self):
        for i, v in enumerate(self.vals):
            if v is not None:
                return i
        return None

    @property
    def loc(self):
        return self.vals

    @property
    def iloc(self):
        return self.vals

    def __len__(self):
        return len(self.vals)


class Frame:
    def __init__(self, cols):
        self._cols = cols          # ordered dict name -> list
        self.columns = list(cols)

    def __getitem__(self, name):
        return Series(self._cols[name])


def pick(seq, i):
    for k in range(len(seq)):
        if i == k:
            return seq[k]
    raise IndexError(i)


def frame(c0, c1, c2, perm, swap):
    vals = [pick(CLASSES, c0), pick(CLASSES, c1), pick(CLASSES, c2)]
    p = pick(PERMS, perm)
    dcol = [vals[p[0]], vals[p[1]], vals[p[2]]]
    ids = [p[0], p[1], p[2]]
    nums = [1.5, 2.5, 3.5]
    ncol = [nums[p[0]], nums[p[1]], nums[p[2]]]
    cols = {"Id_1": ids, "Me_d": dcol, "Me_n": ncol}
    if swap:
        cols = {"Me_n": ncol, "Me_d": dcol, "Id_1": ids}
    return Frame(cols)


def outcome(c0, c1, c2, perm, swap):
    f = frame(c0, c1, c2, perm, swap)
    ov = IO._detect_date_type_overrides(f, COMPS)
    sel = IO._build_dataframe_select_columns(COMPS, list(f.columns), ov, {})
    return (tuple(sorted(ov.items())), tuple(sel))


def check(c0, c1, c2, perm, swap):
    return outcome(c0, c1, c2, 0, False) == outcome(c0, c1, c2, perm, swap)


def warm_light():
    check(1, 2, 0, 3, True)
    check(0, 0, 0, 1, False)
