"""C10 - results conform to the structure predicted by semantic analysis (engine A invariant queries)."""
from vt import templates
from vt.props import _engine_a
from vt.sqlsmt import driver


def run(rep, tier):
    _engine_a.run(rep, tier, templates.c10(tier), fn=driver.run_invariants,
                  functions=["every transpiler visitor exercised by the C01-C07/C28 templates", "io._execution._build_dataset_fetch_select / fetch_result (through the concrete run() of each template)",
                             "API.semantic_analysis (structure oracle)"],
                  bounds={"quick": "every template of C01-C05 (+C06/C07/C28 when built) at its own row bound: solver query 'exists valid input with a null/duplicate identifier, a null in a "
                                   "non-nullable component, >1 datapoint without identifiers or a non-integral value in an Integer component'; plus one concrete run() per template whose "
                                   "returned names/roles/types/nullability/column order are compared with semantic_analysis()",
                          "thorough": "same with the thorough template sets"},
                  outside=["'every corpus script' (no parser: scripts are the hand-built templates)", "pandas dtypes after fetchdf (int64/Int64/float64 for an Integer component: value-level "
                           "conformity only)", "uninterpreted builtin results (round/trunc) are not constrained to be integral"])
    rep.extra["rule"] = ("one obligation = one script template: invariant query over all inputs within the bound (unsat = holds) + structure of a concrete run() vs semantic_analysis(); "
                         "non-trivial = a result datapoint is reachable")


def replay(path):
    from vt.props import _replay
    return _replay.replay_file("C10", path)
