"""C09, String sources (character level).

String -> Integer.  The cast expression is taken from the SQL the real transpiler emits for cast(DS_S, integer); its shape is recognised
(CAST(TRUNC(CAST(x AS DOUBLE)) AS BIGINT) today) and DuckDB's VARCHAR->DOUBLE parser - a C++ kernel - is modelled by a regular language over
the alphabet [0-9 . + - e E blank].  That model is validated on every run against real DuckDB evaluating the emitted expression on EVERY
string of length <= 3 over the alphabet and a sample of longer ones (acceptance and value).  z3 then decides, for every string of length
1..5: accepted => a valid integer string (docs/data_types.rst: 'String to Integer: must be a valid integer string (rejects "3.5")'), and
valid integer string => accepted.  Witnesses are replayed through the real run().

String -> Time_Period.  The emitted expression is vtl_period_normalize(CAST(x AS VARCHAR)): the character-level encoding of the real macro
(C19 / C21) decides per class of cell whether the cast accepts a cell that is not a documented spelling of a valid period."""
import itertools
import random
import time

import z3

from vt import boot

boot.boot()
from vt.sqlsmt import periodio as PIO, strmac as SM  # noqa: E402
from vt.sqlsmt.strmac import AND, OR, S, T  # noqa: E402

ALPHA = "0123456789.+-eE "
DOUBLE_RX = r"^ *\+?-?([0-9]+(\.[0-9]*)?|\.[0-9]+)([eE][+-]?[0-9]+)? *$"      # DuckDB: an optional '+' then an optional '-' (probed, validated below)
# the solver's acceptance language: exponents of one digit (a longer exponent can leave the BIGINT range, where the outer cast fails)
ACC_RX = r"^ *\+?-?([0-9]+(\.[0-9]*)?|\.[0-9]+)([eE][+-]?[0-9])? *$"
INT_RX = r"^ *[+-]?[0-9]+ *$"


def _emitted(target, src_type="String"):
    """the scalar SQL expression the real transpiler emits for cast(Me_1, target) on a String measure -> (sql text, sqlglot node)"""
    from vt import realrun as R
    from vt.astb import assign, cast, start, structure
    from vt.sqlsmt import sqleval
    st = structure("DS_S", [("Id_1", "Integer", "Identifier", False), ("Me_1", src_type, "Measure", True)])
    pipe = R.Pipeline(start(assign("DS_r", cast("DS_S", target))), R.structures(st))
    sql = pipe.queries[-1][1]
    q = sqleval.parse(sql)
    for e in q.expressions:
        if e.alias_or_name in ("int_var", "num_var", "time_period_var", "date_var", "Me_1") and e.alias_or_name != "Id_1":
            return sql, (e.this if e.alias else e)
    raise RuntimeError("cast column not found in %s" % sql)


def _shape(node):
    from sqlglot import exp
    def is_col(x):
        return isinstance(x, exp.Column) and x.name == "Me_1"
    def cast_to(x, names):
        return isinstance(x, exp.Cast) and x.to.sql(dialect="duckdb").upper() in names
    if cast_to(node, ("BIGINT",)) and isinstance(node.this, exp.Trunc) and node.this.args.get("decimals") is None and cast_to(node.this.this, ("DOUBLE",)) and is_col(node.this.this.this):
        return "double-trunc-bigint"
    if cast_to(node, ("BIGINT",)) and is_col(node.this):
        return "bigint"
    if isinstance(node, exp.Anonymous) and node.name.lower() == "vtl_period_normalize" and cast_to(node.expressions[0], ("TEXT", "VARCHAR")) and is_col(node.expressions[0].this):
        return "period-normalize"
    return None


def _real_eval(expr_sql, cells):
    """real DuckDB: the emitted expression on each cell -> list of ('ok', value) | ('error', msg)"""
    import duckdb
    from vtlengine.duckdb_transpiler.sql import initialize_time_types
    conn = duckdb.connect(config={"threads": 1})
    initialize_time_types(conn)
    conn.execute('CREATE TABLE t (k INTEGER, "Me_1" VARCHAR)')
    conn.executemany("INSERT INTO t VALUES (?, ?)", [(i, c) for i, c in enumerate(cells)])
    out = []
    try:
        rows = conn.execute('SELECT k, %s FROM t ORDER BY k' % expr_sql).fetchall()
        out = [("ok", r[1]) for r in rows]
    except duckdb.Error:
        for i, c in enumerate(cells):       # some cell fails: evaluate one by one
            try:
                out.append(("ok", conn.execute('SELECT %s FROM t WHERE k = %d' % (expr_sql, i)).fetchone()[0]))
            except duckdb.Error as e:
                out.append(("error", str(e)[:60]))
    conn.close()
    return out


def _py_double_accepts(s):
    """the model: the regular language above and a value inside the BIGINT range (the outer CAST(... AS BIGINT))"""
    import re
    if re.fullmatch(DOUBLE_RX[1:-1], s) is None:
        return False
    t = s.strip(" ")
    if t.startswith("+"):
        t = t[1:]
    return abs(float(t)) < 9.2233720368547758e18


def _real_run_cast(cell, target, src_type="String"):
    import pandas as pd
    from vt import realrun as R
    from vt.astb import assign, cast, start, structure
    st = structure("DS_S", [("Id_1", "Integer", "Identifier", False), ("Me_1", src_type, "Measure", True)])
    df = pd.DataFrame({"Id_1": [1], "Me_1": pd.Series([cell], dtype=object)})
    try:
        r = R.run_ast(start(assign("DS_r", cast("DS_S", target))), R.structures(st), {"DS_S": df})
        vals = r["DS_r"].data.values.tolist()
        return True, vals[0][1] if vals else None
    except Exception as e:  # noqa
        return False, "%s: %s" % (type(e).__name__, str(e)[:100])


def run_strings(rep, tier):
    t0 = time.time()
    # ------------------------------------------------------------------ String -> Integer
    sql, node = _emitted("integer")
    shape = _shape(node)
    expr_sql = node.sql(dialect="duckdb")
    rep.extra["string_to_integer_expression"] = expr_sql
    if shape != "double-trunc-bigint":
        rep.ob("string->integer", "not_encoded", 0, nontrivial=False, reason="emitted expression %s has no character-level model here" % expr_sql)
    else:
        # validate the model of the VARCHAR->DOUBLE kernel inside the bound (every string of length <= 3, a sample of length 4-5)
        rng = random.Random(rep.seed)
        cells = ["".join(p) for L in (1, 2, 3) for p in itertools.product(ALPHA, repeat=L)]
        cells += ["".join(rng.choice(ALPHA) for _ in range(rng.choice([4, 5]))) for _ in range(3000)]
        real = _real_eval(expr_sql, cells)
        bad = [(c, r) for c, r in zip(cells, real) if (r[0] == "ok") != _py_double_accepts(c)]
        rep.extra["double_parser_model_cells_compared_with_duckdb"] = len(cells)
        if bad:
            rep.harness_error("model of DuckDB's VARCHAR->DOUBLE parser disagrees with real DuckDB on %r" % (bad[:3],))
        else:
            for L in range(1, 6 if tier == "quick" else 7):
                chars = [z3.Int("c%d" % i) for i in range(L)]
                dom = [OR(*[c == ord(a) for a in ALPHA]) for c in chars]
                acc = SM.rx_match(ACC_RX, chars)
                isint = SM.rx_match(INT_RX, chars)
                hasdot = OR(*[c == 46 for c in chars])
                hasexp = OR(*[OR(c == 101, c == 69) for c in chars])
                for klass, cond in (("fraction", hasdot), ("exponent", z3.And(z3.Not(hasdot), hasexp)), ("other", z3.And(z3.Not(hasdot), z3.Not(hasexp)))):
                    oid = "string->integer:L%d:accepted=>integer-string:%s" % (L, klass)
                    s = z3.Solver()
                    s.add(*dom)
                    s.add(acc, z3.Not(isint), cond)
                    t = time.time()
                    r = s.check()
                    dt = time.time() - t
                    if r == z3.unsat:
                        rep.ob(oid, "discharged", dt, verdict="unsat")
                        continue
                    if r != z3.sat:
                        rep.ob(oid, "undecided", dt, nontrivial=False)
                        continue
                    w = "".join(chr(s.model().eval(c, model_completion=True).as_long()) for c in chars)
                    ok, val = _real_run_cast(w, "integer")
                    if ok:
                        key = "C09:string->integer:accepted:%s" % klass
                        what = "cast(%r, integer) returns %r; the documented rule is 'must be a valid integer string (rejects \"3.5\")'" % (w, val)
                        st = rep.violation(key, what, dict(cell=w, target="integer", observed=val))
                        rep.ob(oid, st, dt, key=key, witness=w, what=what)
                    else:
                        rep.harness_error("%s: model accepts %r but run() rejects it (%s)" % (oid, w, val))
                        rep.ob(oid, "undecided", dt, nontrivial=False)
                oid = "string->integer:L%d:integer-string=>accepted" % L
                s = z3.Solver()
                s.add(*dom)
                s.add(isint, z3.Not(acc))
                t = time.time()
                r = s.check()
                dt = time.time() - t
                if r == z3.unsat:
                    rep.ob(oid, "discharged", dt, verdict="unsat")
                elif r == z3.sat:
                    w = "".join(chr(s.model().eval(c, model_completion=True).as_long()) for c in chars)
                    ok, val = _real_run_cast(w, "integer")
                    if not ok:
                        key = "C09:string->integer:rejected-integer-string"
                        st = rep.violation(key, "cast(%r, integer) is rejected: %s" % (w, val), dict(cell=w, target="integer", observed=val))
                        rep.ob(oid, st, dt, key=key, witness=w)
                    else:
                        rep.harness_error("%s: witness %r does not reproduce" % (oid, w))
                        rep.ob(oid, "undecided", dt, nontrivial=False)
                else:
                    rep.ob(oid, "undecided", dt, nontrivial=False)
    # ------------------------------------------------------------------ String -> Time_Period
    sql, node = _emitted("time_period")
    rep.extra["string_to_time_period_expression"] = node.sql(dialect="duckdb")
    if _shape(node) != "period-normalize":
        rep.ob("string->time_period", "not_encoded", 0, nontrivial=False, reason="emitted expression %s has no character-level model here" % node.sql(dialect="duckdb"))
        return
    me = PIO.macro_eval()
    LOW = [ord(c) for c in "asqmwd"]
    jobs = []
    for L in range(4, 9 if tier == "quick" else 11):
        for klass in ("spaces", "lowercase", "undocumented-layout", "invalid-number"):
            jobs.append((L, klass))
    import concurrent.futures as cf
    import multiprocessing as mp
    global _ME
    _ME = me
    with cf.ProcessPoolExecutor(max_workers=16, mp_context=mp.get_context("fork")) as ex:
        results = list(ex.map(_tp_job, jobs))
    for (L, klass), r in zip(jobs, results):
        oid = "string->time_period:L%d:%s" % (L, klass)
        if r["status"] == "unsat":
            rep.ob(oid, "discharged", r["dt"], verdict="unsat")
        elif r["status"] == "sat":
            hit = None
            for w in r["witnesses"]:
                ok, val = _real_run_cast(w, "time_period")
                if ok:
                    hit = (w, val)
                    break
            if hit:
                w, val = hit
                key = "C09:string->time_period:accepted:%s" % klass
                what = "cast(%r, time_period) returns %r although the cell is not a documented spelling of a valid period (%s)" % (w, val, klass)
                st = rep.violation(key, what, dict(cell=w, target="time_period", observed=val))
                rep.ob(oid, st, r["dt"], key=key, witness=w, what=what)
            else:
                # the cast expression accepts these cells but a later stage of run() rejected every witness tried: nothing is claimed for the class
                rep.ob(oid, "undecided", r["dt"], nontrivial=False, note="normalisation accepts %r; run() as a whole rejected the witnesses tried" % (r["witnesses"],))
        else:
            rep.ob(oid, "undecided", r["dt"], nontrivial=False)
    rep.functions.append("SQL emitted for cast(String, integer) / cast(String, time_period) (shape recognised per run); init.sql vtl_period_normalize at character level; DuckDB VARCHAR->DOUBLE modelled as a "
                         "regular language validated against real DuckDB on every string of length <= 3 and 3000 longer samples")


_ME = None


def _tp_job(job):
    L, klass = job
    me = _ME
    LOW = [ord(c) for c in "asqmwd"]
    chars, dom = PIO.symbolic_cell(L)
    n = me.call("vtl_period_normalize", S([(T, list(chars))]))
    shape, valid, den = PIO.documented(chars)
    s = z3.Solver()
    s.set("timeout", 120000)
    s.add(*dom)
    s.add(z3.Not(n.err), z3.Not(n.null))
    nospace = AND(*[c != 32 for c in chars])
    nolower = AND(*[z3.Not(OR(*[c == a for a in LOW])) for c in chars])
    if klass == "spaces":
        s.add(z3.Not(nospace))
    elif klass == "lowercase":
        s.add(nospace, z3.Not(nolower))
    elif klass == "undocumented-layout":
        s.add(nospace, nolower, z3.Not(shape))
    else:
        s.add(nospace, nolower, shape, z3.Not(valid))
    t = time.time()
    r = s.check()
    wits = []
    first = r
    while r == z3.sat and len(wits) < 5:
        m = s.model()
        vals = [m.eval(c, model_completion=True) for c in chars]
        wits.append("".join(chr(v.as_long()) for v in vals))
        s.add(z3.Or(*[c != v for c, v in zip(chars, vals)]))
        r = s.check()
    dt = time.time() - t
    if first == z3.sat:
        return dict(status="sat", dt=dt, witnesses=wits)
    return dict(status="unsat" if first == z3.unsat else "undecided", dt=dt)
