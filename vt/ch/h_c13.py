"""C13 harness: the real DAGAnalyzer.ds_structure schedule driving the real execute_queries /
load_scheduled_datasets / cleanup_scheduled_datasets with the environment replaced by event
recorders (conn.execute, load_datapoints_duckdb, register_dataframes, fetch_result,
initialize_time_types).  The script shape is symbolic exactly as in C12 (who reads whom, which
statements are persistent, how results are mentioned), plus which statements read the second
global input G2."""
import copy

from vt import boot

boot.boot()
from vt.ch import h_c12 as H12  # noqa: E402
from vt.astb import binop, var, calc, filter_, const  # noqa: E402
from vtlengine.AST.DAG import DAGAnalyzer  # noqa: E402
from vtlengine.Exceptions import SemanticError  # noqa: E402
import vtlengine.duckdb_transpiler.io._execution as EX  # noqa: E402

KINDS = H12.KINDS


class FakeConn:
    def __init__(self, log):
        self.log = log

    def execute(self, sql, *a, **k):
        if sql.startswith("CREATE TABLE"):
            self.log.append(("exec", sql.split('"')[1]))
        elif sql.startswith("DROP TABLE"):
            self.log.append(("drop", sql.split('"')[1]))
        else:
            self.log.append(("sql", sql[:20]))
        return self


def _install(log):
    saved = {}

    def load_dp(conn=None, components=None, dataset_name=None, file_path=None, **k):
        log.append(("load", dataset_name))

    def reg(conn, dfs, input_datasets, **k):
        for n in dfs:
            log.append(("load", n))

    def fetch(conn=None, result_name=None, **k):
        log.append(("fetch", result_name))
        return ("RESULT", result_name)

    def init(conn, sql_fragments=None):
        return None
    for name, fn in (("load_datapoints_duckdb", load_dp), ("register_dataframes", reg), ("fetch_result", fetch), ("initialize_time_types", init)):
        saved[name] = getattr(EX, name)
        setattr(EX, name, fn)
    return saved


def _restore(saved):
    for k, v in saved.items():
        setattr(EX, k, v)


def build(N, refs, pers, kind, g2):
    """script as in C12; statement k additionally mentions the global input G2 when g2[k]"""
    ast, names = H12.script(N, refs, pers, kind, 0)
    for k, st in enumerate(ast.children):
        if g2[k]:
            # G2 is read as a dataset operand (a global input mentioned inside a clause body is a scalar literal,
            # not a table, so it is not a scheduled read)
            st.right = binop("+", st.right, var("G2"))
    return ast, names


def check(N, refs, pers, kind, g2, rop):
    ast, names = build(N, refs, pers, kind, g2)
    if H12.has_cycle(N, refs):
        return True
    try:
        DAGAnalyzer.create_dag(ast)
        sched = DAGAnalyzer.ds_structure(ast)
    except SemanticError:
        return False
    order = [st.left.value for st in ast.children]
    queries = [(st.left.value, "SELECT 1", type(st).__name__ == "PersistentAssignment") for st in ast.children]
    readers = {}
    for k in range(N):
        rd = {"G"} | {"O%d" % j for j in range(N) if j != k and refs.get((k, j))}
        if g2[k]:
            rd.add("G2")
        readers["O%d" % k] = rd
    inputs = {"G": object(), "G2": object()}

    class DS:
        components = {}
    input_datasets = {"G": DS(), "G2": DS()}
    log = []
    saved = _install(log)
    try:
        results = EX.execute_queries(conn=FakeConn(log), queries=queries, ds_analysis=sched, path_dict=None,
                                     dataframe_dict={"G": 1, "G2": 1}, input_datasets=input_datasets, output_datasets={},
                                     output_scalars={}, output_folder=None, return_only_persistent=rop)
    except Exception:
        _restore(saved)
        return False
    _restore(saved)
    # ---- oracle over the event log
    live, loaded, dropped, executed = set(), set(), set(), []
    for ev, name in log:
        if ev == "load":
            if name in loaded:
                return False          # an input loaded twice
            loaded.add(name)
            live.add(name)
        elif ev == "exec":
            for r in readers[name]:
                if r not in live:
                    return False      # reads something not loaded/produced or already released
            live.add(name)
            executed.append(name)
        elif ev == "drop":
            if name in dropped:
                return False          # released twice
            if name not in live:
                return False
            # released only after its last reader ran
            for o in order:
                if name in readers[o] and o not in executed:
                    return False
            dropped.add(name)
            live.discard(name)
        elif ev == "fetch":
            if name not in live:
                return False
    if executed != order:
        return False
    want = {n for n, _, p in queries if (p or not rop)}
    if set(results.keys()) != want:
        return False
    for n in want:
        if results[n] != ("RESULT", n):
            return False
    # every global input that is read was loaded exactly once (checked above) and every intermediate that has a
    # reader was released or is a returned result still live at the end
    used_inputs = set()
    for o in order:
        used_inputs |= readers[o] & {"G", "G2"}
    if used_inputs != loaded:
        return False
    return True


def warm_light():
    for kind in range(len(KINDS)):
        check(3, {(0, 1): True, (2, 0): True}, [True, False, False], kind, [False, True, False], True)
        check(3, {(1, 0): True, (2, 1): True, (2, 0): True}, [False, False, True], kind, [True, True, False], False)
        check(3, {(0, 1): True, (1, 0): True}, [False, False, True], kind, [False, False, False], True)


def warm():
    import itertools
    bad = []
    for kind in range(len(KINDS)):
        for bits in itertools.product([False, True], repeat=6):
            refs = dict(zip([(0, 1), (0, 2), (1, 0), (1, 2), (2, 0), (2, 1)], bits))
            for pers in ((0, 0, 0), (1, 0, 1), (0, 1, 0)):
                for g2 in ((0, 0, 0), (1, 0, 1), (0, 1, 1)):
                    for rop in (False, True):
                        if not check(3, refs, list(pers), kind, list(g2), rop):
                            bad.append((kind, bits, pers, g2, rop))
    return bad


if __name__ == "__main__":
    b = warm()
    print(len(b), b[:10])
