import probe_stubparser as stubparser; stubparser.install()
from typing import List
from vtlengine.DataTypes import (String, Number, Integer, TimeInterval, Date, TimePeriod, Duration, Boolean, Null,
    binary_implicit_promotion, check_binary_implicit_promotion, IMPLICIT_TYPE_PROMOTION_MAPPING)
from vtlengine.Exceptions import SemanticError
TYPES = [String, Number, Integer, TimeInterval, Date, TimePeriod, Duration, Boolean, Null]

def check_agrees(l: int, r: int, t: int) -> bool:
    """
    pre: 0 <= l < 9 and 0 <= r < 9 and 0 <= t < 10
    post: _
    """
    L, R = TYPES[l], TYPES[r]
    T = None if t == 9 else TYPES[t]
    ok = check_binary_implicit_promotion(L, R, T)
    try:
        binary_implicit_promotion(L, R, T)
        raised = False
    except SemanticError:
        raised = True
    return ok == (not raised)

def commutes(l: int, r: int) -> bool:
    """
    pre: 0 <= l < 9 and 0 <= r < 9
    post: _
    """
    L, R = TYPES[l], TYPES[r]
    try:
        a = binary_implicit_promotion(L, R)
    except SemanticError:
        a = None
    try:
        b = binary_implicit_promotion(R, L)
    except SemanticError:
        b = None
    return a is b
