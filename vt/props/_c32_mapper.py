"""C32, part 3: the message mapper itself cannot crash and maps every data error (symbolic interpretation of _map_query_error).

Real DuckDB messages are obtained on every run by provoking each kind of failure on a real connection with a marker in the place of the
user's value (failed conversions of a String cell to BIGINT / DOUBLE / TIMESTAMP / DATE, the error() calls of the conversion macros that
quote their argument, the period-comparison / time_agg / overflow / sqrt messages).  The marker is replaced by a z3 string variable v
(<= 12 characters over [a-z0-9 :"'./-], no upper case) and vt/sqlsmt/pysym.py interprets the CURRENT source of _map_query_error over
Concat(prefix, v, suffix).  For every path z3 decides whether an exception point (IndexError on a split piece, m.group() on None, a
missing placeholder) or a raw return for a data error is reachable; every model is replayed on the real function with the real exception
class before it is reported."""
import time

import z3

MARK = "qzqzq"
ALPHA = "abcdefghijklmnopqrstuvwxyz0123456789 :\"'./-"


def real_messages():
    """-> list of (name, real exception, message with MARK)"""
    import duckdb
    from vt import boot
    boot.boot()
    from vtlengine.duckdb_transpiler.sql import initialize_time_types
    conn = duckdb.connect(config={"threads": 1})
    initialize_time_types(conn)
    conn.execute('CREATE TABLE t ("Id_1" BIGINT, "Me_1" VARCHAR, "Me_2" BIGINT)')
    conn.execute("INSERT INTO t VALUES (1, ?, 9223372036854775807)", [MARK])
    probes = [
        ("cast-string-bigint", 'SELECT "Id_1", CAST("Me_1" AS BIGINT) AS "int_var" FROM t'),
        ("cast-string-double", 'SELECT "Id_1", CAST(TRUNC(CAST("Me_1" AS DOUBLE)) AS BIGINT) AS "int_var" FROM t'),
        ("cast-string-timestamp", 'SELECT "Id_1", CAST("Me_1" AS TIMESTAMP) AS "date_var" FROM t'),
        ("cast-string-date", 'SELECT "Id_1", CAST("Me_1" AS DATE) AS "date_var" FROM t'),
        ("cast-string-boolean", 'SELECT "Id_1", CAST("Me_1" AS BOOLEAN) AS "bool_var" FROM t'),
        ("period-to-date", 'SELECT "Id_1", vtl_period_to_date("Me_1") AS "date_var" FROM t'),
        ("interval-to-date", "SELECT \"Id_1\", vtl_interval_to_date(\"Me_1\" || '/x') AS \"date_var\" FROM t"),
        ("period-normalize", 'SELECT "Id_1", vtl_period_normalize("Me_1") AS "x" FROM t'),
        ("overflow-add", 'SELECT "Id_1", "Me_2" + "Me_2" AS "Me_2" FROM t'),
        ("sqrt-negative", 'SELECT "Id_1", SQRT(-"Me_2") AS "Me_2" FROM t'),
        ("period-compare", "SELECT vtl_period_lt(vtl_period_parse('2020A'), vtl_period_parse('2020-Q1')) AS x"),
        ("time-agg", "SELECT vtl_time_agg_tp('2020A', 'M') AS x"),
        ("div-zero", 'SELECT vtl_div(1, 0) AS x'),
        ("ln-zero", 'SELECT LN(0) AS x'),
    ]
    out = []
    for name, q in probes:
        try:
            conn.execute('CREATE TABLE "DS_r" AS ' + q)
            conn.execute('DROP TABLE "DS_r"')
        except duckdb.Error as e:
            out.append((name, e, str(e)))
    conn.close()
    return out


def run_mapper(rep, tier):
    from vt import boot
    boot.boot()
    import vtlengine.duckdb_transpiler.io._execution as EX
    from vt.sqlsmt import pysym
    from vt.sqlsmt.driver import classify_exception
    msgs = real_messages()
    rep.extra["mapper_message_templates"] = {n: m[:160] for n, e, m in msgs}
    v = z3.String("v")
    dom = [z3.Length(v) <= 12, z3.InRe(v, z3.Star(z3.Union(*[z3.Re(c) for c in ALPHA])))]
    for name, exc, m in msgs:
        oid = "mapper:%s" % name
        classes = {c.__name__ for c in type(exc).__mro__}
        if MARK in m:
            pre, suf = m.split(MARK, 1)
            suf = suf.replace(MARK, "")      # (a second echo of the value in the LINE context is dropped: stated)
            term = z3.Concat(z3.StringVal(pre), v, z3.StringVal(suf))
            low = z3.Concat(z3.StringVal(pre.lower()), v, z3.StringVal(suf.lower()))
        else:
            pre, suf = m, ""
            term, low = z3.StringVal(m), z3.StringVal(m.lower())
        t0 = time.time()
        parts = (pre, v, suf) if MARK in m else None
        lparts = (pre.lower(), v, suf.lower()) if MARK in m else None
        it = pysym.Interp(EX, "_map_query_error", pysym.SStr(term, low, parts, lparts), classes, ctx_assume=dom, alphabet=ALPHA)
        try:
            it.run()
        except pysym.NotEncoded as e:
            rep.ob(oid, "not_encoded", 0, nontrivial=False, reason="_map_query_error uses a construct outside the interpreter: %s" % e)
            continue
        events = list(it.events)
        for pc, val in it.returns:
            if isinstance(val, tuple) and val and val[0] == "error" and "DataError" in classes:
                events.append(("raw", pc, "a data error is returned unmapped"))
            elif val is None:
                events.append(("raw", pc, "the mapper returns None"))
        bad = None
        undec = False
        for kind, pc, desc in events:
            s = z3.Solver()
            s.set("timeout", 30000)
            s.add(*it.assume)
            s.add(*pc)
            r = s.check()
            if r == z3.unsat:
                continue
            if r != z3.sat:
                undec = True
                continue
            val = s.model().eval(v, model_completion=True).as_string()
            real_msg = pre + val + suf
            try:
                e2 = type(exc)(real_msg)
                res = EX._map_query_error(e2, "SELECT 1", "DS_r")
                k2, n2 = classify_exception(res) if isinstance(res, Exception) else ("raw", "None")
                if k2 == "vtl":
                    undec = undec or False     # over-approximation (strip / regex abstraction): the event does not happen on the real code
                    continue
                bad = (kind, val, "returns %s %s" % (k2, n2))
            except Exception as ex:  # noqa
                bad = (kind, val, "raises %s: %s" % (type(ex).__name__, str(ex)[:80]))
            if bad:
                break
        dt = time.time() - t0
        if bad:
            key = "C32:mapper:%s:%s" % (name, bad[0])
            what = "_map_query_error on the real %s message with the value %r %s - a raw error escapes run()" % (type(exc).__name__, bad[1], bad[2])
            st = rep.violation(key, what, dict(template=name, value=bad[1], message=(pre + bad[1] + suf)[:300], exception_class=type(exc).__name__))
            rep.ob(oid, st, dt, key=key, what=what)
        elif undec:
            rep.ob(oid, "undecided", dt, nontrivial=False)
        else:
            rep.ob(oid, "discharged", dt, paths=len(it.returns), exception_points=len(it.events),
                   how="every path of _map_query_error over %s... <v> ...%s returns a catalogued VTL error; no exception point is reachable" % (pre[:40], suf[:20]))
    rep.functions.append("io/_execution.py: _map_query_error, _map_time_agg_error - symbolic interpretation of the current source (vt/sqlsmt/pysym.py) over real DuckDB messages with a symbolic user value")
    rep.assumptions.append("mapper analysis: the user's value has <= 12 characters over [a-z0-9 :\"'./-] (no upper case: .lower() is the identity on it)")
