"""C01 - element-wise operators: SQL emitted by the real transpiler == VTL reference, for all inputs within the bound."""
from vt import templates
from vt.props import _engine_a


def run(rep, tier):
    tpls = templates.c01(tier)
    _engine_a.run(rep, tier, tpls,
                  functions=["SQLTranspiler.visit_BinOp/_build_ds_ds_binary/_build_ds_scalar_binary/_apply_measures/visit_UnaryOp/visit_ParamOp/"
                             "visit_MulOp_between/visit_If/visit_Case/_build_dataset_if + registry templates + vtl_div"],
                  bounds={"quick": "2 symbolic datapoints per input dataset, <=3 datasets, depth <= 2; every operator group at dataset/dataset, "
                                   "dataset/scalar, scalar/dataset, component/component, component/scalar level",
                          "thorough": "3 symbolic datapoints per input, depth-2 compositions of + - * over nested identifier sets, depth 3 chain"},
                  outside=["float rounding / inf / nan", "mod unless op1 >= 0 and op2 > 0", "values of round/trunc/ln/exp/sqrt/power/log/upper/lower/trim (uninterpreted)",
                           "depth > 3", "unicode strings", "count of rows > bound"])


def replay(path):
    from vt.props import _replay
    return _replay.replay_file("C01", path)
