"""Character-level symbolic evaluation of the repository's string macros and regular expressions.

A string value is a finite list of guarded alternatives, each a python list of z3 Int character
codes (so every alternative has a CONCRETE length); LENGTH, SUBSTR with constant offsets, ||, LPAD,
UPPER, TRIM, CAST(digits AS INTEGER), CAST(int AS VARCHAR), equality, IN and regexp_matches all
reduce to linear integer arithmetic and booleans.  Regular expressions are compiled from the REAL
pattern constants with Python's `re._parser` into a position-set simulation (Thompson style).

Used by C19 / C20 / C21 on `vtl_period_normalize`, the representation macros and the loader's
TIME_PERIOD_PATTERN etc.  The macro bodies are parsed by sqlglot from the repository's SQL files on
every run.
"""
import re._parser as sre

import z3
from sqlglot import exp

from vt.sqlsmt import cal
from vt.sqlsmt.sym import Unsupported

T, F = z3.BoolVal(True), z3.BoolVal(False)


def OR(*a):
    a = [x for x in a]
    return z3.Or(*a) if a else F


def AND(*a):
    a = [x for x in a]
    return z3.And(*a) if a else T


class S:
    """string: alternatives (guard, [char codes]); null; err (a DuckDB error is raised)"""

    def __init__(self, alts, null=F, err=F):
        self.alts, self.null, self.err = alts, null, err


class I:
    def __init__(self, v, null=F, err=F):
        self.v, self.null, self.err = v, null, err


class B(I):
    pass


def lit(txt):
    return S([(T, [z3.IntVal(ord(c)) for c in txt])])


def isdigit(c):
    return z3.And(c >= 48, c <= 57)


def up(c):
    return z3.If(z3.And(c >= 97, c <= 122), c - 32, c)


def merge(s):
    """one alternative per length: guards OR-ed, characters selected by an If-chain (keeps the alternative count small)"""
    by = {}
    for g, ch in s.alts:
        if z3.is_false(g):
            continue
        by.setdefault(len(ch), []).append((g, ch))
    alts = []
    for L, group in sorted(by.items()):
        if len(group) == 1:
            alts.append(group[0])
            continue
        g_all = OR(*[g for g, _ in group])
        chars = []
        for i in range(L):
            c = group[-1][1][i]
            for g, ch in reversed(group[:-1]):
                c = z3.If(g, ch[i], c)
            chars.append(c)
        alts.append((g_all, chars))
    return S(alts, s.null, s.err)


def substr(s, start, ln=None):
    out = []
    a = max(start - 1, 0)
    for g, ch in s.alts:
        out.append((g, ch[a:] if ln is None else ch[a:a + ln]))
    return S(out, s.null, s.err)


def length(s):
    v = z3.IntVal(0)
    for g, ch in s.alts:
        v = z3.If(g, len(ch), v)
    return I(v, s.null, s.err)


def upper(s):
    return S([(g, [up(c) for c in ch]) for g, ch in s.alts], s.null, s.err)


def trim(s):
    """TRIM of spaces: one alternative per (leading, trailing) count"""
    out = []
    s = merge(s)
    for g, ch in s.alts:
        n = len(ch)
        for lead in range(n + 1):
            for trail in range(n - lead + 1):
                core = ch[lead:n - trail]
                cond = AND(g, *[c == 32 for c in ch[:lead]], *[c == 32 for c in ch[n - trail:]],
                           *([core[0] != 32, core[-1] != 32] if core else []))
                if not core and lead + trail != n:
                    continue
                if not core and trail != 0:
                    continue      # all-space string: counted once (lead = n)
                out.append((cond, core))
    return S(out, s.null, s.err)


def concat(a, b):
    return S([(z3.And(g1, g2), c1 + c2) for g1, c1 in a.alts for g2, c2 in b.alts], z3.Or(a.null, b.null), z3.Or(a.err, b.err))


def seq(a, b):
    cs = []
    for g1, c1 in a.alts:
        for g2, c2 in b.alts:
            if len(c1) == len(c2):
                cs.append(AND(g1, g2, *[x == y for x, y in zip(c1, c2)]))
    return B(OR(*cs), z3.Or(a.null, b.null), z3.Or(a.err, b.err))


def scmp(a, b, op):
    """byte-wise comparison of strings of length <= 1 (what the macros need)"""
    cs = []
    for g1, c1 in a.alts:
        for g2, c2 in b.alts:
            if len(c1) == 1 and len(c2) == 1:
                cs.append(AND(g1, g2, op(c1[0], c2[0])))
            elif len(c1) == 0 and len(c2) == 1:
                cs.append(AND(g1, g2, z3.BoolVal(bool(op(0, 1)))))
            elif len(c1) == 1 and len(c2) == 0:
                cs.append(AND(g1, g2, z3.BoolVal(bool(op(1, 0)))))
            elif len(c1) == 0 and len(c2) == 0:
                cs.append(AND(g1, g2, z3.BoolVal(bool(op(0, 0)))))
            else:
                raise Unsupported("string comparison of lengths %d/%d" % (len(c1), len(c2)))
    return B(OR(*cs), z3.Or(a.null, b.null), z3.Or(a.err, b.err))


def cast_int(s, try_=False):
    """DuckDB VARCHAR -> INTEGER restricted to the modelled alphabet: [spaces] [+-] digits+ [spaces]; anything else fails.
    (validated exhaustively against DuckDB for every string of length <= 3 over the alphabet in selfcheck)"""
    val, ok = z3.IntVal(0), F
    for g, ch in s.alts:
        n = len(ch)
        for lead in range(n + 1):
            for sign in (0, 1):
                for trail in range(n - lead - sign + 1):
                    d = ch[lead + sign: n - trail]
                    if len(d) == 0 or len(d) > 9:
                        continue
                    cond = AND(g, *[c == 32 for c in ch[:lead]], *([OR(ch[lead] == 45, ch[lead] == 43)] if sign else []),
                               *[isdigit(c) for c in d], *[c == 32 for c in ch[n - trail:]])
                    v = z3.IntVal(0)
                    for c in d:
                        v = v * 10 + (c - 48)
                    if sign:
                        v = z3.If(ch[lead] == 45, -v, v)
                    val = z3.If(cond, v, val)
                    ok = z3.Or(ok, cond)
    if try_:
        return I(val, z3.Or(s.null, z3.Not(ok)), s.err)
    return I(val, s.null, z3.Or(s.err, z3.And(z3.Not(s.null), z3.Not(ok))))


def int_to_str(i, maxdigits=4):
    alts = []
    v = i.v
    for nd in range(1, maxdigits + 1):
        lo, hi = (0 if nd == 1 else 10 ** (nd - 1)), 10 ** nd - 1
        digs = [z3.IntVal(48) + (v / (10 ** k)) % 10 for k in reversed(range(nd))]
        alts.append((z3.And(v >= lo, v <= hi), digs))
        nv = -v
        digs = [z3.IntVal(45)] + [z3.IntVal(48) + (nv / (10 ** k)) % 10 for k in reversed(range(nd))]
        alts.append((z3.And(nv >= max(lo, 1), nv <= hi), digs))
    cover = OR(*[g for g, _ in alts])
    out = S(alts, i.null, z3.Or(i.err, z3.And(z3.Not(i.null), z3.Not(cover))))
    out.uncovered = z3.And(z3.Not(i.null), z3.Not(cover))
    return out


def lpad(s, w, padc=48):
    out = []
    for g, ch in s.alts:
        out.append((g, ch[:w] if len(ch) >= w else [z3.IntVal(padc)] * (w - len(ch)) + ch))
    return S(out, s.null, s.err)


def cast_date(s):
    """CAST('YYYY-MM-DD...' AS DATE) for a 10-character argument: digits and hyphens in place and a real calendar date,
    otherwise a conversion error.  -> I(day number)"""
    val, ok = z3.IntVal(0), F
    tens = [(g, ch) for g, ch in s.alts if len(ch) == 10]
    for g, ch in tens:
        dig = [ch[i] for i in (0, 1, 2, 3, 5, 6, 8, 9)]
        y = (ch[0] - 48) * 1000 + (ch[1] - 48) * 100 + (ch[2] - 48) * 10 + (ch[3] - 48)
        m = (ch[5] - 48) * 10 + (ch[6] - 48)
        d = (ch[8] - 48) * 10 + (ch[9] - 48)
        cond = AND(g, *[isdigit(c) for c in dig], ch[4] == 45, ch[7] == 45, m >= 1, m <= 12, d >= 1, d <= cal.dim(y, m))
        if len(tens) == 1:
            # single layout: keep the forward term itself (its provenance lets the calendar invert it without unfolding);
            # when the cell is not a valid date the value is irrelevant (err is set)
            val = cal.days_from_civil(y, m, d)
        else:
            val = z3.If(cond, cal._days_from_civil(y, m, d), val)
        ok = z3.Or(ok, cond)
    r = I(val, s.null, z3.Or(s.err, z3.And(z3.Not(s.null), z3.Not(ok))))
    r.ymd_ok = ok
    return r


# ---------------------------------------------------------------------- evaluator over sqlglot expressions
class MacroEval:
    def __init__(self, macros):
        self.macros = macros          # name -> (params, body)
        self.calx = cal.Cal(None)
        self.lemmas = []              # redundant theorems (digit recomposition, civil/day-number inverse) that spare div/mod reasoning

    def call(self, name, *args):
        params, body = self.macros[name.lower()]
        return self.ev(body, dict(zip([p.lower() for p in params], args)))

    def ev(self, e, env):
        if isinstance(e, exp.Paren):
            return self.ev(e.this, env)
        if isinstance(e, exp.Column):
            return env[e.name.lower()]
        if isinstance(e, exp.Literal):
            return lit(e.this) if e.is_string else I(z3.IntVal(int(e.this)))
        if isinstance(e, exp.Null):
            return S([(T, [])], T)
        if isinstance(e, exp.Is):
            a = self.ev(e.this, env)
            if not isinstance(e.expression, exp.Null):
                raise Unsupported("IS non-null")
            return B(a.null, F, a.err)
        if isinstance(e, exp.Not):
            a = self.ev(e.this, env)
            return B(z3.Not(a.v), a.null, a.err)
        if isinstance(e, exp.Length):
            return length(self.ev(e.this, env))
        if isinstance(e, exp.Upper):
            return upper(self.ev(e.this, env))
        if isinstance(e, exp.Trim):
            return trim(self.ev(e.this, env))
        if isinstance(e, exp.Substring):
            st = int(e.args["start"].this)
            ln = e.args.get("length")
            return substr(self.ev(e.this, env), st, int(ln.this) if ln is not None else None)
        if isinstance(e, exp.DPipe):
            return concat(self.to_s(self.ev(e.this, env)), self.to_s(self.ev(e.expression, env)))
        if isinstance(e, (exp.EQ, exp.NEQ)):
            a, b = self.ev(e.this, env), self.ev(e.expression, env)
            r = seq(a, b) if isinstance(a, S) else B(a.v == b.v, z3.Or(a.null, b.null), z3.Or(a.err, b.err))
            return r if isinstance(e, exp.EQ) else B(z3.Not(r.v), r.null, r.err)
        if isinstance(e, (exp.GTE, exp.LTE, exp.GT, exp.LT)):
            a, b = self.ev(e.this, env), self.ev(e.expression, env)
            opf = {exp.GTE: lambda x, y: x >= y, exp.LTE: lambda x, y: x <= y, exp.GT: lambda x, y: x > y, exp.LT: lambda x, y: x < y}[type(e)]
            if not isinstance(a, S):
                return B(opf(a.v, b.v), z3.Or(a.null, b.null), z3.Or(a.err, b.err))
            return scmp(a, b, opf)
        if isinstance(e, exp.Between):
            a, lo, hi = self.ev(e.this, env), self.ev(e.args["low"], env), self.ev(e.args["high"], env)
            if isinstance(a, S):
                raise Unsupported("BETWEEN on strings")
            return B(z3.And(a.v >= lo.v, a.v <= hi.v), z3.Or(a.null, lo.null, hi.null), z3.Or(a.err, lo.err, hi.err))
        if isinstance(e, exp.In):
            a = self.ev(e.this, env)
            rs = [seq(a, self.ev(x, env)) for x in e.expressions]
            return B(OR(*[r.v for r in rs]), a.null, a.err)
        if isinstance(e, (exp.And, exp.Or)):
            a, b = self.ev(e.this, env), self.ev(e.expression, env)
            if isinstance(e, exp.And):
                f = z3.Or(z3.And(z3.Not(a.null), z3.Not(a.v)), z3.And(z3.Not(b.null), z3.Not(b.v)))
                return B(z3.And(a.v, b.v), z3.And(z3.Not(f), z3.Or(a.null, b.null)), z3.Or(a.err, z3.And(b.err, z3.Or(a.null, a.v))))
            t = z3.Or(z3.And(z3.Not(a.null), a.v), z3.And(z3.Not(b.null), b.v))
            return B(z3.Or(a.v, b.v), z3.And(z3.Not(t), z3.Or(a.null, b.null)), z3.Or(a.err, z3.And(b.err, z3.Or(a.null, z3.Not(a.v)))))
        if isinstance(e, (exp.Cast, exp.TryCast)):
            a = self.ev(e.this, env)
            to = e.to.sql(dialect="duckdb").upper()
            if to in ("INT", "INTEGER", "BIGINT"):
                return cast_int(a, try_=isinstance(e, exp.TryCast)) if isinstance(a, S) else a
            if to in ("TEXT", "VARCHAR"):
                return self.to_s(a)
            if to == "DATE":
                if isinstance(a, S):
                    r = cast_date(a)
                    r.is_date = True
                    return r
                return a
            raise Unsupported("CAST to %s" % to)
        if isinstance(e, exp.DayOfYear):
            a = self.ev(e.this, env)
            return I(self.calx.doy(a.v), a.null, a.err)
        if isinstance(e, exp.Add) and isinstance(e.expression, exp.Interval):
            a = self.ev(e.this, env)
            n = self.ev(e.expression.this, env)
            if e.expression.args["unit"].name.upper() != "DAY":
                raise Unsupported("interval unit")
            r = I(a.v + n.v, z3.Or(a.null, n.null), z3.Or(a.err, n.err))
            r.is_date = True
            return r
        if isinstance(e, (exp.Sub, exp.Add)):
            a, b = self.ev(e.this, env), self.ev(e.expression, env)
            return I(a.v - b.v if isinstance(e, exp.Sub) else a.v + b.v, z3.Or(a.null, b.null), z3.Or(a.err, b.err))
        if isinstance(e, exp.Pad):
            return lpad(self.to_s(self.ev(e.this, env)), int(e.expression.this))
        if isinstance(e, exp.Anonymous):
            nm = e.name.lower()
            if nm in self.macros:
                return self.call(nm, *[self.ev(x, env) for x in e.expressions])
            if nm == "error":
                return S([(T, [])], F, T)
            raise Unsupported("function %s" % nm)
        if isinstance(e, exp.Case):
            if e.this is not None:
                raise Unsupported("simple CASE")
            default = self.ev(e.args["default"], env) if e.args.get("default") is not None else S([(T, [])], T)
            alts, null, err, taken = [], F, F, F
            for br in e.args["ifs"]:
                cond = self.ev(br.this, env)
                c_true = z3.And(z3.Not(cond.null), cond.v)
                here = z3.And(z3.Not(taken), c_true)
                err = z3.Or(err, z3.And(z3.Not(taken), cond.err))
                r = self.to_s(self.ev(br.args["true"], env))
                alts += [(z3.And(here, g), ch) for g, ch in r.alts]
                null = z3.Or(null, z3.And(here, r.null))
                err = z3.Or(err, z3.And(here, r.err))
                taken = z3.Or(taken, c_true)
            default = self.to_s(default)
            alts += [(z3.And(z3.Not(taken), g), ch) for g, ch in default.alts]
            null = z3.Or(null, z3.And(z3.Not(taken), default.null))
            err = z3.Or(err, z3.And(z3.Not(taken), default.err))
            return merge(S([(z3.simplify(g), ch) for g, ch in alts], null, err))
        raise Unsupported("string macro node %s: %s" % (type(e).__name__, e.sql()[:60]))

    def to_s(self, v):
        if isinstance(v, S):
            return v
        if isinstance(v, I) and not isinstance(v, B):
            if getattr(v, "is_date", False):
                y, m, d = self.calx.civil(v.v)

                def pad(x, w):
                    return [z3.IntVal(48) + (x / (10 ** k)) % 10 for k in reversed(range(w))]

                def horner(cs):
                    r = z3.IntVal(0)
                    for c in cs:
                        r = r * 10 + (c - 48)
                    return r
                self.lemmas.append(z3.Implies(z3.And(y >= 0, y <= 9999), z3.And(horner(pad(y, 4)) == y, horner(pad(m, 2)) == m, horner(pad(d, 2)) == d,
                                                                                 m >= 1, m <= 12, d >= 1, d <= cal.dim(y, m), cal._days_from_civil(y, m, d) == v.v)))
                return S([(T, pad(y, 4) + [z3.IntVal(45)] + pad(m, 2) + [z3.IntVal(45)] + pad(d, 2))], v.null, v.err)
            return int_to_str(v)
        raise Unsupported("to string")


# ---------------------------------------------------------------------- regex over a concrete-length char array
def rx_match(pattern, chars):
    """regexp_matches(chars, pattern) for patterns whose alternatives are all anchored ^...$ -> z3 Bool"""
    tree = sre.parse(pattern)

    def cls(op, av, ch):
        name = str(op)
        if name == "LITERAL":
            return ch == av
        if name == "NOT_LITERAL":
            return ch != av
        if name == "ANY":
            return ch != 10
        if name == "IN":
            ors, neg = [], False
            for o, a in av:
                o = str(o)
                if o == "NEGATE":
                    neg = True
                elif o == "LITERAL":
                    ors.append(ch == a)
                elif o == "RANGE":
                    ors.append(z3.And(ch >= a[0], ch <= a[1]))
                elif o == "CATEGORY" and str(a) == "CATEGORY_DIGIT":
                    ors.append(isdigit(ch))
                else:
                    raise Unsupported("regex class %s %s" % (o, a))
            r = OR(*ors)
            return z3.Not(r) if neg else r
        raise Unsupported("regex item %s" % name)

    def m(items, pos_set):
        for op, av in items:
            new = {}

            def add(p, c):
                new[p] = z3.Or(new[p], c) if p in new else c
            name = str(op)
            if name == "AT":
                for p, c in pos_set.items():
                    if str(av) == "AT_BEGINNING" and p == 0:
                        add(p, c)
                    if str(av) == "AT_END" and p == len(chars):
                        add(p, c)
            elif name in ("LITERAL", "IN", "NOT_LITERAL", "ANY"):
                for p, c in pos_set.items():
                    if p < len(chars):
                        add(p + 1, z3.And(c, cls(op, av, chars[p])))
            elif name in ("MAX_REPEAT", "MIN_REPEAT"):
                lo, hi, sub = av
                cur, acc = pos_set, {}
                for k in range(0, min(hi, len(chars)) + 1):
                    if k >= lo:
                        for p, c in cur.items():
                            acc[p] = z3.Or(acc[p], c) if p in acc else c
                    cur = m(list(sub), cur)
                    if not cur:
                        break
                new = acc
            elif name == "SUBPATTERN":
                new = m(list(av[3]), pos_set)
            elif name == "BRANCH":
                for br in av[1]:
                    r = m(list(br), pos_set)
                    for p, c in r.items():
                        add(p, c)
            else:
                raise Unsupported("regex op %s" % name)
            pos_set = new
        return pos_set
    end = m(list(tree), {0: T})
    return end.get(len(chars), F)


def rx_match_s(pattern, s):
    s = merge(s)
    return OR(*[z3.And(g, rx_match(pattern, ch)) for g, ch in s.alts])


def model_string(model, s):
    """python string of a string value under a model (first true alternative)"""
    for g, ch in s.alts:
        if z3.is_true(model.eval(g, model_completion=True)):
            return "".join(chr(model.eval(c, model_completion=True).as_long()) for c in ch)
    return None
