"""Drive the real vtlengine pipeline on hand-built ASTs.

pipeline(): real DAGAnalyzer -> real InterpreterAnalyzer (semantic) -> real SQLTranspiler.
run_ast(): the real public run() (create_ast replaced as described in vt/boot.py).
"""
import copy
import math

from vt import boot

boot.boot()
import pandas as pd  # noqa: E402
import vtlengine.API as API  # noqa: E402
from vtlengine.API._InternalApi import load_datasets  # noqa: E402
from vtlengine.AST.DAG import DAGAnalyzer  # noqa: E402
from vtlengine.duckdb_transpiler.Transpiler import SQLTranspiler  # noqa: E402
from vtlengine.Interpreter import InterpreterAnalyzer  # noqa: E402
from vtlengine.Model import Dataset, Scalar  # noqa: E402


class Pipeline:
    def __init__(self, ast, structures, scalar_values=None, tp_format="vtl"):
        self.ast = copy.deepcopy(ast)
        self.dag = DAGAnalyzer.create_dag(self.ast)
        self.input_datasets, self.input_scalars = load_datasets({"datasets": structures["datasets"],
                                                                  **({"scalars": structures["scalars"]} if "scalars" in structures else {})})
        if scalar_values:
            for k, v in scalar_values.items():
                if k in self.input_scalars:
                    self.input_scalars[k].value = v
        interp = InterpreterAnalyzer(datasets=copy.deepcopy(self.input_datasets),
                                     value_domains=None, external_routines=None,
                                     scalars=copy.deepcopy(self.input_scalars))
        self.semantic = interp.visit(copy.deepcopy(self.ast))
        self.output_datasets = {k: v for k, v in self.semantic.items() if isinstance(v, Dataset)}
        self.output_scalars = {k: v for k, v in self.semantic.items() if isinstance(v, Scalar)}
        self.schedule = DAGAnalyzer.ds_structure(self.ast)
        tr = SQLTranspiler(input_datasets=self.input_datasets, output_datasets=self.output_datasets,
                           input_scalars=self.input_scalars, output_scalars=self.output_scalars,
                           value_domains={}, external_routines={}, dag=self.dag,
                           time_period_output_format=tp_format)
        self.queries = tr.transpile(self.ast)  # list of (name, sql, persistent)


def structures(*ds, scalars=None):
    d = {"datasets": list(ds)}
    if scalars:
        d["scalars"] = scalars
    return d


def run_ast(ast, structs, datapoints, **kw):
    """Real public run(). datapoints: dict name -> DataFrame."""
    key = boot.register(ast)
    kw.setdefault("return_only_persistent", False)
    return API.run(key, copy.deepcopy(structs), {k: v.copy() for k, v in datapoints.items()}, **kw)


def semantic_ast(ast, structs):
    key = boot.register(ast)
    return API.semantic_analysis(key, copy.deepcopy(structs))


def _norm(v):
    if v is None:
        return None
    try:
        if pd.isna(v):
            return None
    except (TypeError, ValueError):
        pass
    if hasattr(v, "item"):
        v = v.item()
    if isinstance(v, bool):
        return v
    if isinstance(v, float):
        if math.isfinite(v) and v == int(v) and abs(v) < 2**53:
            return int(v)
        return round(v, 9)
    return v


def keyed(ds):
    """Dataset -> {id-tuple: {comp: value}} ; raises on duplicate keys."""
    ids = [n for n, c in ds.components.items() if c.role.name == "IDENTIFIER" or str(c.role).endswith("IDENTIFIER")]
    out = {}
    df = ds.data
    for _, row in df.iterrows():
        k = tuple(_norm(row[i]) for i in ids)
        if k in out:
            raise AssertionError("duplicate key %r in %s" % (k, ds.name))
        out[k] = {c: _norm(row[c]) for c in df.columns if c not in ids}
    return out


def rows(ds):
    """Dataset -> sorted list of normalised row tuples (multiset)."""
    df = ds.data
    cols = list(df.columns)
    return cols, sorted((tuple(_norm(r[c]) for c in cols) for _, r in df.iterrows()), key=repr)
