"""AST builder DSL mirroring the node shapes produced by vtlengine's ASTConstructor.

Every function returns a node of the repository's own `vtlengine.AST` dataclasses.  Shapes were
collected from AST/ASTConstructorModules/{Expr,ExprComponents,Terminals}.py (notes/ast_shapes.md)
and are validated by running transcribed reference-manual scripts through the real run().
"""
from vt import boot

boot.install_stub()
import vtlengine.AST as A  # noqa: E402
from vtlengine import DataTypes as DT  # noqa: E402

P = dict(line_start=1, column_start=0, line_stop=1, column_stop=0)


# ---- leaves -----------------------------------------------------------------------------
def var(name):
    return A.VarID(value=name, **P)


def comp(name):
    return A.Identifier(value=name, kind="ComponentID", **P)


def dsid(name):
    return A.Identifier(value=name, kind="DatasetID", **P)


def const(v):
    if v is None:
        return A.Constant(type_="NULL_CONSTANT", value=None, **P)
    if isinstance(v, bool):
        return A.Constant(type_="BOOLEAN_CONSTANT", value=v, **P)
    if isinstance(v, int):
        return A.Constant(type_="INTEGER_CONSTANT", value=v, **P)
    if isinstance(v, float):
        return A.Constant(type_="FLOAT_CONSTANT", value=v, **P)
    if isinstance(v, str):
        return A.Constant(type_="STRING_CONSTANT", value=v, **P)
    raise TypeError(v)


def null():
    return const(None)


def _e(x):
    """coerce python literals / names"""
    if isinstance(x, A.AST):
        return x
    if isinstance(x, str):
        return var(x)
    return const(x)


# ---- operators ---------------------------------------------------------------------------
def binop(op, l, r):
    return A.BinOp(left=_e(l), op=op, right=_e(r), **P)


def unop(op, x):
    return A.UnaryOp(op=op, operand=_e(x), **P)


def par(x):
    return A.ParFunction(operand=_e(x), **P)


def paramop(op, children, params=()):
    return A.ParamOp(op=op, children=[_e(c) for c in children], params=[_e(p) for p in params], **P)


def optional():
    return A.ID(type_="OPTIONAL", value="_", **P)


def mulop(op, children):
    return A.MulOp(op=op, children=[_e(c) for c in children], **P)


def between(x, lo, hi):
    return mulop("between", [x, lo, hi])


def in_(x, values, neg=False):
    coll = A.Collection(name="List", type="Lists", children=[const(v) for v in values], **P)
    return A.BinOp(left=_e(x), op="not_in" if neg else "in", right=coll, **P)


def if_(c, t, e):
    return A.If(condition=_e(c), thenOp=_e(t), elseOp=_e(e), **P)


def case(pairs, else_):
    return A.Case(cases=[A.CaseObj(condition=_e(c), thenOp=_e(t), **P) for c, t in pairs],
                  elseOp=_e(else_), **P)


def member(ds, c):
    return A.BinOp(left=_e(ds), op="#", right=comp(c), **P)


_TYPES = {
    "integer": DT.Integer, "number": DT.Number, "string": DT.String, "boolean": DT.Boolean,
    "date": DT.Date, "time_period": DT.TimePeriod, "time": DT.TimeInterval,
    "duration": DT.Duration,
}


def cast(x, type_name, mask=None):
    t = _TYPES[type_name]
    params = [A.ParamConstant(type_="PARAM_CAST", value=mask, **P)] if mask is not None else []
    return A.ParamOp(op="cast", children=[_e(x), t], params=params, **P)


# ---- clauses -----------------------------------------------------------------------------
def clause(op, ds, children, last=False):
    return A.RegularAggregation(op=op, children=list(children), dataset=_e(ds), isLast=last, **P)


def filter_(ds, cond):
    return clause("filter", ds, [_e(cond)])


def calc(ds, items):
    """items: list of (role|None, name, expr); role in measure/identifier/attribute/viral attribute"""
    ch = []
    for role, name, expr in items:
        a = A.Assignment(left=var(name), op=":=", right=_e(expr), **P)
        ch.append(A.UnaryOp(op=role, operand=a, **P) if role else a)
    return clause("calc", ds, ch)


def keep(ds, names):
    return clause("keep", ds, [comp(n) for n in names])


def drop(ds, names):
    return clause("drop", ds, [comp(n) for n in names])


def unpivot(ds, new_id, new_measure):
    return clause("unpivot", ds, [comp_id(new_id), comp_id(new_measure)])


def rename(ds, pairs):
    return clause("rename", ds, [A.RenameNode(old_name=o, new_name=n, **P) for o, n in pairs])


def sub(ds, pairs):
    return clause("sub", ds, [A.BinOp(left=var(c), op="=", right=const(v), **P) for c, v in pairs])


def having(cond, text="having"):
    h = A.ParamOp(op="having", children=None, params=_e(cond), **P)
    h.expr = text
    return h


def agg(op, operand=None, grouping_op=None, grouping=None, having_clause=None):
    return A.Aggregation(op=op, operand=_e(operand) if operand is not None else None,
                         grouping_op=grouping_op,
                         grouping=[comp(g) if isinstance(g, str) else g for g in grouping] if grouping else None,
                         having_clause=having_clause, **P)


def aggr(ds, items, grouping_op=None, grouping=None, having_clause=None):
    """items: list of (role|None, name, aggop, component); role in measure/attribute/identifier/viral attribute"""
    from vtlengine.Model import Role
    rmap = {"measure": Role.MEASURE, "attribute": Role.ATTRIBUTE, "identifier": Role.IDENTIFIER,
            "viral attribute": Role.VIRAL_ATTRIBUTE, None: None}
    ch = []
    for role, name, aop, c in items:
        left = comp(name)
        left.role = rmap[role]
        ch.append(A.Assignment(left=left, op=":=", right=agg(aop, var(c) if c else None, grouping_op, grouping, having_clause), **P))
    return clause("aggr", ds, ch)


def jbody(j, *clause_fns):
    """join with a body: clauses wrap the JoinOp (isLast False), the outermost clause carries isLast=True"""
    j.isLast = False
    node = j
    for fn in clause_fns:
        node = fn(node)
    node.isLast = True
    return node


def window(type_="data", start=-1, start_mode="preceding", stop=0, stop_mode="current"):
    return A.Windowing(type_=type_, start=start, start_mode=start_mode, stop=stop, stop_mode=stop_mode, **P)


def analytic(op, operand=None, partition_by=None, order_by=None, win=None, params=None, partition_op=None):
    ob = [A.OrderBy(component=c, order=o, **P) for c, o in order_by] if order_by else None
    if partition_by is not None and partition_op is None:
        partition_op = "by"
    return A.Analytic(op=op, operand=_e(operand) if operand is not None else None, window=win,
                      params=params, partition_by=partition_by, partition_op=partition_op,
                      order_by=ob, **P)


def join(op, clauses, using=None, nvl=None, last=True):
    cl = []
    for c in clauses:
        if isinstance(c, tuple):
            cl.append(A.BinOp(left=_e(c[0]), op="as", right=dsid(c[1]), **P))
        else:
            cl.append(_e(c))
    return A.JoinOp(op=op, clauses=cl, using=using, nvl=nvl, isLast=last, **P)


def exists_in(l, r, retain=None):
    """retain: None | True | False | 'all'"""
    ch = [_e(l), _e(r)]
    if retain == "all":
        ch.append(A.ParamConstant(type_="PARAM_CONSTANT", value="all", **P))
    elif retain is not None:
        ch.append(A.Constant(type_="BOOLEAN_CONSTANT", value=bool(retain), **P))
    return A.MulOp(op="exists_in", children=ch, **P)


def setop(op, operands):
    return mulop(op, operands)


def check(validation, error_code=None, error_level=None, imbalance=None, invalid=False):
    return A.Validation(op="check", validation=_e(validation), error_code=error_code,
                        error_level=error_level, imbalance=_e(imbalance) if imbalance is not None else None,
                        invalid=invalid, **P)


def time_agg(operand, period_to, period_from=None, conf=None):
    return A.TimeAggregation(op="time_agg", operand=_e(operand) if operand is not None else None,
                             period_to=period_to, period_from=period_from, conf=conf, **P)


# ---- statements ---------------------------------------------------------------------------
def assign(name, expr, persistent=False):
    cls = A.PersistentAssignment if persistent else A.Assignment
    return cls(left=var(name), op="<-" if persistent else ":=", right=_e(expr), **P)


def start(*stmts):
    return A.Start(children=list(stmts), **P)


def viral_def(name, target, enumerated=(), aggregate=None, default=None, signature_type="variable"):
    en = [A.EnumeratedVpClause(name=None, values=list(vals), result=res, **P) for vals, res in enumerated]
    ag = A.AggregateVpClause(function=aggregate, **P) if aggregate else None
    return A.ViralPropagationDef(name=name, signature_type=signature_type, target=target,
                                 enumerated_clauses=en, aggregate_clause=ag, default_value=default, **P)


# ---- structures ---------------------------------------------------------------------------
def structure(name, comps):
    """comps: list of (name, type, role, nullable)"""
    return {"name": name, "DataStructure": [
        {"name": n, "type": t, "role": r, "nullable": nl} for n, t, r, nl in comps]}


def render(ast):
    """Readable VTL text of a built AST through the repository's own ASTString (best effort)."""
    try:
        from vtlengine.AST.ASTString import ASTString
        import copy
        return ASTString(pretty=False).render(copy.deepcopy(ast))
    except Exception as e:  # rendering is informational only
        return "<unrenderable: %s>" % type(e).__name__


# ---- rulesets / validation ------------------------------------------------------------------
def dpruleset(name, comps, rules):
    """rules: list of (rule name|None, expr | ('when', cond, then), erCode, erLevel)"""
    rr = []
    for rn, ex, ec, el in rules:
        if isinstance(ex, tuple) and ex[0] == "when":
            node = A.HRBinOp(left=_e(ex[1]), op="when", right=_e(ex[2]), **P)
        else:
            node = _e(ex)
        rr.append(A.DPRule(name=rn, rule=node, erCode=ec, erLevel=el, **P))
    return A.DPRuleset(name=name, signature_type="variable",
                       params=[A.DPRIdentifier(value=c, kind="ComponentID", alias=None, **P) for c in comps], rules=rr, **P)


def check_datapoint(ds, ruleset_name, output=None, components=()):
    out = {None: None, "invalid": A.ValidationOutput.INVALID, "all": A.ValidationOutput.ALL, "all_measures": A.ValidationOutput.ALL_MEASURES}[output]
    return A.DPValidation(dataset=_e(ds), ruleset_name=ruleset_name, components=list(components), output=out, **P)


def _ci(v):
    return A.DefIdentifier(value=v, kind="CodeItemID", **P)


def hruleset(name, comp, rules):
    """rules: list of (rule name|None, left code, op, [(sign, code), ...], erCode, erLevel)"""
    rr = []
    for rn, left, op, terms, ec, el in rules:
        rhs = None
        for sign, code in terms:
            if rhs is None:
                rhs = _ci(code) if sign == "+" else A.HRUnOp(op="-", operand=_ci(code), **P)
            else:
                rhs = A.HRBinOp(left=rhs, op=sign, right=_ci(code), **P)
        rr.append(A.HRule(name=rn, rule=A.HRBinOp(left=_ci(left), op=op, right=rhs, **P), erCode=ec, erLevel=el, **P))
    return A.HRuleset(name=name, signature_type="variable", element=A.DefIdentifier(value=comp, kind="DatasetID", **P), rules=rr, **P)


def hrop(op, ds, ruleset_name, comp, mode=None, input_mode=None, output=None):
    vm = None if mode is None else A.ValidationMode(mode)
    if op == "check_hierarchy":
        im = None if input_mode is None else A.CHInputMode(input_mode)
        om = None if output is None else A.ValidationOutput(output)
    else:
        im = None if input_mode is None else A.HRInputMode(input_mode)
        om = None if output is None else A.HierarchyOutput(output)
    return A.HROperation(op=op, dataset=_e(ds), ruleset_name=ruleset_name, rule_component=comp_id(comp), conditions=[],
                         validation_mode=vm, input_mode=im, output=om, **P)


def comp_id(name):
    return A.Identifier(value=name, kind="ComponentID", **P)
