"""Run engine-A templates (in worker processes) and feed a Report.

A template is a dict:
  id        unique string
  ast       Start node (vt.astb)
  structs   list of structure dicts
  nrows     int or {dataset: int}
  check     list of result names to compare with the oracle (default: every dataset result)
  scalars / scalar_values / opts   optional
  mode      'equiv' (default) | 'order' (self-composition under two physical orders) | 'invariants'
"""
import concurrent.futures as cf
import json
import multiprocessing as mp
import os
import re
import time
import traceback

import z3
from sqlglot import errors as sqlglot_errors


def _classify(info):
    w = info.get("what", "")
    obs = str(info.get("observed", ""))
    if info.get("raw_error"):
        m = re.match(r"raw (\w+)", obs)
        return "raw-error:" + (m.group(1) if m else "?")
    if w.startswith("columns"):
        return "columns"
    if w.startswith("no runtime error"):
        return "missing-error"
    if w.startswith("run() raised a VTL error"):
        m = re.search(r"VTL error (\w+)", obs)
        return "unexpected-vtl-error:" + (m.group(1) if m else "?")
    if w.startswith("datapoints"):
        return "datapoints"
    return "values"


def run_template(tpl):
    """Worker: returns a JSON-serialisable dict."""
    t0 = time.time()
    out = dict(id=tpl["id"], status="undecided", solver_s=0.0, selfcheck=None, notes=[])
    try:
        from vt.sqlsmt import equiv, harness as H
        from vt.sqlsmt.sym import Unsupported
        from vt.spec import ref as REF
        from vt.astb import render
        out["script"] = render(tpl["ast"])
        case = H.Case(tpl["id"], tpl["ast"], tpl["structs"], nrows=tpl.get("nrows", 2), scalars=tpl.get("scalars"),
                      scalar_values=tpl.get("scalar_values"), opts=tpl.get("opts")).build()
        out["sql"] = [q[1][:600] for q in case.pipe.queries]
        try:
            case.encode()
        except (Unsupported, sqlglot_errors.ParseError) as e:
            # the emitted SQL is outside the encoder (or is not SQL at all): probe the real engine concretely; a raw
            # (non-VTL) failure is a reproduced violation, anything else leaves the template not encoded
            info = case.probe_real(seed=int(os.environ.get("VERIF_SEED") or 0))
            if info is not None:
                info["script"] = out["script"]
                out.update(status="violated", key="%s:%s" % (tpl["id"], _classify(info)), info=info, what=info["what"] + " - " + info["observed"][:160])
                return out
            out.update(status="not_encoded", reason="SQL: %s" % str(e)[:300])
            return out
        ref_cls = tpl.get("ref_cls") or REF.Ref
        try:
            ref = ref_cls(case.ctx, case.inputs, scalars=tpl.get("ref_scalars"))
            ores = ref.run(tpl["ast"])
        except Unsupported as e:
            out.update(status="not_encoded", reason="oracle: %s" % e)
            return out
        # translator self-check against real DuckDB on concrete tables
        cells, skipped, mism = case.selfcheck(samples=tpl.get("samples", 4), seed=int(os.environ.get("VERIF_SEED") or 0))
        out["selfcheck"] = dict(cells=cells, skipped_uninterpreted=skipped, mismatches=len(mism))
        if mism:
            out.update(status="harness_error", reason="encoding disagrees with real DuckDB on concrete tables: %s" % json.dumps(mism[0], default=str)[:600])
            return out
        from vt.sqlsmt.sym import Row, TRUE as _T
        for n_, v_ in list(ores.items()):
            if not isinstance(v_, REF.RDS):
                # scalar result: the engine materialises it as a one-row table with column `value`
                ores[n_] = REF.RDS([("value", v_[1], "Measure")], [Row(_T, {"value": v_[0]}, [])])
        names = tpl.get("check") or list(ores.keys())
        worst = "discharged"
        for name in names:
            q = equiv.Query(case, name, ores[name], ref, timeout_ms=tpl.get("timeout_ms", 20000))
            sm = q.structure_mismatch()
            r_reach, dt = q.reach()
            out["solver_s"] += dt
            if r_reach != "sat":
                out["notes"].append("reachability twin of %s: %s" % (name, r_reach))
                if r_reach == "unsat":
                    out.update(status="harness_error", reason="vacuous: no output row of %s is reachable" % name)
                    return out
                worst = "undecided"
                continue
            if sm is not None:
                # structural difference: confirm on any concrete valid input
                s = q.solver()
                s.add(z3.Or(*[r.present for r in q.T.rows]))
                s.check()
                info = equiv.replay(case, _StructQ(q), s.model())
                info["what"] = sm
                out.update(status="violated", key="%s:%s" % (tpl["id"], "columns"), info=info, what=sm)
                return out
            r, model, dt = q.check()
            out["solver_s"] += dt
            out.setdefault("queries", []).append(dict(result=name, verdict=r, solver_s=round(dt, 3)))
            if r == "unsat":
                continue
            if r != "sat":
                worst = "undecided"
                out["notes"].append("query %s: %s" % (name, r))
                continue
            # counterexample: minimise, replay through the real run()
            tried = []
            reproduced = None
            models = [q.small_model(model), model]
            for m in models:
                info = equiv.replay(case, q, m)
                tried.append(info["status"])
                if info["status"] == "reproduced":
                    reproduced = info
                    break
            if reproduced is not None:
                out.update(status="violated", key="%s:%s" % (tpl["id"], _classify(reproduced)), info=reproduced,
                           what=reproduced.get("what", "result differs from the VTL reference"))
                return out
            out["notes"].append("counterexample for %s did not reproduce through run(): %s" % (name, tried))
            if "inconclusive" in tried:
                worst = "undecided"
            else:
                out.update(status="harness_error", reason="solver counterexample for %s does not reproduce through the real run() "
                                                          "(encoding or oracle wrong): %s" % (name, json.dumps(info, default=str)[:700]))
                return out
        out["status"] = worst
        return out
    except Exception as e:  # noqa
        out.update(status="harness_error", reason="driver exception %s: %s" % (type(e).__name__, str(e)[:300]), tb=traceback.format_exc()[-1500:])
        return out
    finally:
        out["wall_s"] = round(time.time() - t0, 2)


class _StructQ:
    """Query view used for the replay of a structural mismatch (expected rows are not compared)."""

    def __init__(self, q):
        self.__dict__.update(q.__dict__)


def run_all(rep, templates, workers=None, label=""):
    workers = workers or min(16, os.cpu_count() or 4)
    t0 = time.time()
    results = []
    ctx = mp.get_context("fork")
    with cf.ProcessPoolExecutor(max_workers=workers, mp_context=ctx) as ex:
        futs = {ex.submit(run_template, t): t for t in templates}
        for f in cf.as_completed(futs):
            t = futs[f]
            try:
                results.append(f.result())
            except Exception as e:  # worker died
                results.append(dict(id=t["id"], status="harness_error", reason="worker crashed: %s" % e, solver_s=0))
    results.sort(key=lambda r: r["id"])
    for r in results:
        feed(rep, r)
    return results


def feed(rep, r):
    st = r["status"]
    oid = r["id"]
    if st == "violated":
        v = rep.violation(r["key"], r.get("what", ""), dict(r.get("info") or {}, template=r["id"], script=r.get("script"), sql=r.get("sql")))
        rep.ob(oid, v, r.get("solver_s", 0), key=r["key"], script=r.get("script"), what=r.get("what"))
    elif st == "discharged":
        rep.ob(oid, "discharged", r.get("solver_s", 0), script=r.get("script"), queries=r.get("queries"), selfcheck=r.get("selfcheck"))
        rep.sample(dict(template=oid, script=r.get("script"), sql=(r.get("sql") or [""])[-1][:300], queries=r.get("queries")))
    elif st == "not_encoded":
        rep.ob(oid, "not_encoded", 0, nontrivial=False, script=r.get("script"), reason=r.get("reason"))
    elif st == "harness_error":
        rep.ob(oid, "undecided", r.get("solver_s", 0), nontrivial=False, script=r.get("script"), reason=r.get("reason"))
        rep.harness_error("%s: %s" % (oid, r.get("reason")))
    else:
        rep.ob(oid, "undecided", r.get("solver_s", 0), nontrivial=False, script=r.get("script"), notes=r.get("notes"))
