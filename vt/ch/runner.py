"""ENGINE B: run CrossHair (symbolic execution of the repository's Python with z3) on harness
functions, one process per condition, and re-execute every counterexample in a plain interpreter.

Harness convention: a function `f(<symbolic ints/bools>) -> bool` with a PEP316 docstring
(`pre:` bounds, `post: _`) whose body calls the REAL vtlengine function and returns whether the
property held.  A reachability twin `f__reach` (same precondition, returns False at the very
end) must come back with a counterexample, otherwise the harness is vacuous.
"""
import ast
import concurrent.futures as cf
import importlib
import os
import re
import subprocess
import sys
import time

VERIF = os.path.dirname(os.path.dirname(os.path.dirname(os.path.abspath(__file__))))
REPO = os.environ.get("VT_REPO", "/repo")
CROSSHAIR = os.path.join(VERIF, ".venv", "bin", "crosshair")


def _defs(path):
    tree = ast.parse(open(path).read())
    return sorted((n.lineno, n.name) for n in ast.walk(tree) if isinstance(n, ast.FunctionDef))


def _batch(path, funcs, timeout, env):
    """One CrossHair process checking several conditions sequentially (amortises interpreter start-up)."""
    defs = _defs(path)
    line_of = {n: l for l, n in defs}
    e = dict(os.environ)
    e["PYTHONPATH"] = os.pathsep.join([os.path.join(REPO, "src"), VERIF])
    e["PYTHONDONTWRITEBYTECODE"] = "1"
    e["VT_UNDER_CROSSHAIR"] = "1"
    e.update(env or {})
    t = time.time()
    targets = ["%s:%d" % (path, line_of[f]) for f in funcs]
    try:
        p = subprocess.run([CROSSHAIR, "check", "--report_all", "--per_condition_timeout", str(timeout),
                            "--per_path_timeout", str(max(5, timeout // 4))] + targets,
                           capture_output=True, text=True, env=e, timeout=(timeout * 2 + 30) * len(funcs) + 120)
        out = p.stdout + p.stderr
    except subprocess.TimeoutExpired as ex:
        out = "TIMEOUT " + str(ex)
    dt = time.time() - t
    res = {}
    per = {f: [] for f in funcs}
    for ln in out.splitlines():
        m = re.match(r"%s:(\d+): (info|error): (.*)" % re.escape(path), ln)
        if not m:
            continue
        lno = int(m.group(1))
        owner = None
        for l, n in defs:
            if l <= lno:
                owner = n
        if owner in per:
            per[owner].append((m.group(2), m.group(3)))
    for f in funcs:
        r = dict(func=f, wall_s=round(dt / max(1, len(funcs)), 2), raw="\n".join("%s: %s" % x for x in per[f])[-1500:] or out.strip()[-600:])
        msgs = per[f]
        errs = [m for k, m in msgs if k == "error"]
        infos = " ".join(m for k, m in msgs if k == "info")
        if errs:
            r["verdict"] = "counterexample"
            m = re.search(r"when calling (\w+)\((.*?)\)(?: \(which|\s*$)", errs[0])
            if m:
                r["call"] = "%s(%s)" % (m.group(1), m.group(2))
                r["args"] = m.group(2)
            if not errs[0].startswith("false when calling"):
                r["exception"] = errs[0][:200]
        elif "Confirmed over all paths" in infos:
            r["verdict"] = "confirmed"
        elif "Not confirmed" in infos:
            r["verdict"] = "not_confirmed"
        elif "Unable to meet precondition" in infos:
            r["verdict"] = "no_precondition"
        else:
            r["verdict"] = "error"
        res[f] = r
    return res


def run_conditions(path, funcs, timeout=60, env=None, workers=16):
    """-> {func: result}; conditions are spread round-robin over `workers` CrossHair processes."""
    funcs = list(funcs)
    groups = [funcs[i::workers] for i in range(workers)]
    groups = [g for g in groups if g]
    out = {}
    with cf.ThreadPoolExecutor(max_workers=workers) as ex:
        for r in ex.map(lambda g: _batch(path, g, timeout, env), groups):
            out.update(r)
    return out


def replay_call(module_name, func, args_src, env=None):
    """Re-execute a CrossHair counterexample in a plain interpreter (fresh process).
    Returns True when the harness function really returns False (violation reproduces)."""
    code = (
        "import sys, importlib\n"
        "m = importlib.import_module(%r)\n"
        "r = getattr(m, %r)(%s)\n"
        "print('REPLAY_RESULT', r)\n" % (module_name, func, args_src)
    )
    e = dict(os.environ)
    e["PYTHONPATH"] = os.pathsep.join([os.path.join(REPO, "src"), VERIF])
    e.update(env or {})
    p = subprocess.run([sys.executable, "-c", code], capture_output=True, text=True, env=e, timeout=300)
    m = re.search(r"REPLAY_RESULT (\S+)", p.stdout)
    if not m:
        return None, (p.stdout + p.stderr)[-800:]
    return m.group(1) == "False", p.stdout[-400:]


def decide(rep, module_name, path, specs, timeout=60, env=None, prefix=""):
    """specs: list of (func, description, classify) ; classify(args_src)-> (key, what) for a
    counterexample.  Handles twins (func + '__reach') automatically when present in the file.
    Returns dict func -> status."""
    src = open(path).read()
    funcs = []
    for f, _, _ in specs:
        funcs.append(f)
        if re.search(r"def %s__reach\(" % re.escape(f), src):
            funcs.append(f + "__reach")
    res = run_conditions(path, funcs, timeout=timeout, env=env)
    status = {}
    for f, desc, classify in specs:
        r = res[f]
        tw = res.get(f + "__reach")
        oid = prefix + f
        if tw is not None and tw["verdict"] != "counterexample":
            rep.ob(oid, "undecided", r["wall_s"], nontrivial=False, desc=desc,
                   note="reachability twin verdict: %s" % tw["verdict"])
            if tw["verdict"] == "confirmed":
                rep.harness_error("vacuous harness %s (twin confirmed)" % f)
            status[f] = "undecided"
            continue
        if r["verdict"] == "confirmed":
            rep.ob(oid, "discharged", r["wall_s"], desc=desc, engine="crosshair", verdict="Confirmed over all paths")
            status[f] = "discharged"
        elif r["verdict"] == "counterexample":
            ok, out = replay_call(module_name, f, r.get("args", ""), env=env)
            if ok is True:
                key, what = classify(r.get("args", "")) if classify else (oid, desc)
                st = rep.violation(key, what, dict(engine="crosshair", harness=module_name, call=r.get("call"),
                                                   replay_cmd="PYTHONPATH=%s/src:%s %s -c 'import %s as m; print(m.%s)'" % (
                                                       REPO, VERIF, sys.executable, module_name, r.get("call")),
                                                   output=out))
                rep.ob(oid, st, r["wall_s"], desc=desc, engine="crosshair", counterexample=r.get("call"), key=key)
                status[f] = st
            else:
                rep.harness_error("counterexample %s did not reproduce in a plain interpreter: %s" % (r.get("call"), out))
                rep.ob(oid, "undecided", r["wall_s"], desc=desc, note="non-reproducing counterexample")
                status[f] = "undecided"
        else:
            rep.ob(oid, "undecided", r["wall_s"], nontrivial=False, desc=desc, note=r["verdict"], raw=r["raw"][-300:])
            status[f] = "undecided"
    return status
