"""C12 harness: the real DAGAnalyzer.create_dag on scripts whose reference relation is symbolic.

script(N, refs, pers, kind, dup) builds a Start of N assignments O0..O{N-1}; refs[(k, j)] says
"statement k mentions the result of statement j"; pers[k] makes statement k persistent (`<-`);
kind selects HOW results are mentioned; dup > 0 makes statement `dup` assign the same name as
statement 0.  check() runs the real create_dag and compares with the graph-theoretic oracle."""
import copy

from vt import boot

boot.boot()
from vt.astb import (assign, binop, calc, const, filter_, join, member, start, var)  # noqa: E402
from vtlengine.AST.DAG import DAGAnalyzer  # noqa: E402
from vtlengine.Exceptions import SemanticError  # noqa: E402

KINDS = ["plain", "membership", "calc_scalar", "filter_scalar", "join_alias", "mixed"]


def _expr(kind, k, names):
    """expression of statement k mentioning `names` (results of other statements) in the given way"""
    if kind == 5:  # mixed: the way depends on the statement index
        kind = k % 4
    if kind == 0:
        e = var("G")
        for n in names:
            e = binop("+", e, var(n))
        return e
    if kind == 1:
        e = member("G", "Me_1")
        for n in names:
            e = binop("+", e, member(n, "Me_1"))
        return e
    if kind == 2:
        e = var("Me_1")
        for n in names:
            e = binop("+", e, var(n))
        return calc("G", [("measure", "Me_2", e)])
    if kind == 3:
        e = binop(">", var("Me_1"), const(0))
        for n in names:
            e = binop("and", e, binop(">", var("Me_1"), var(n)))
        return filter_("G", e)
    if kind == 4:
        cl = [("G", "g")] + [(n, "a%d" % i) for i, n in enumerate(names)]
        return join("inner_join", cl)
    raise ValueError(kind)


def script(N, refs, pers, kind, dup):
    names = ["O%d" % k for k in range(N)]
    if 0 < dup < N:
        names[dup] = names[0]
    stmts = []
    for k in range(N):
        mentioned = ["O%d" % j for j in range(N) if j != k and refs.get((k, j))]
        stmts.append(assign(names[k], _expr(kind, k, mentioned), persistent=bool(pers[k])))
    return start(*stmts), names


def has_cycle(N, refs):
    # Warshall on concrete bools
    reach = [[bool(refs.get((k, j))) and k != j for j in range(N)] for k in range(N)]
    for m in range(N):
        for a in range(N):
            for b in range(N):
                if reach[a][m] and reach[m][b]:
                    reach[a][b] = True
    return any(reach[a][a] for a in range(N))


def check(N, refs, pers, kind, dup):
    ast, names = script(N, refs, pers, kind, dup)
    original = list(ast.children)
    try:
        DAGAnalyzer.create_dag(ast)
        outcome = "ok"
    except SemanticError as e:
        outcome = e.args[1] if len(e.args) > 1 else "semantic"
    except Exception as e:
        return False  # raw error
    dupl = 0 < dup < N
    if dupl:
        # the same name assigned twice: must be rejected (redefinition; a cycle error is also a
        # legitimate report when the duplicated name closes a cycle)
        return outcome in ("1-2-2", "1-3-2-3")
    if has_cycle(N, refs):
        return outcome == "1-3-2-3"
    if outcome != "ok":
        return False
    out = ast.children
    if len(out) != N or {id(x) for x in out} != {id(x) for x in original}:
        return False
    pos = {}
    for i, st in enumerate(out):
        pos[st.left.value] = i
    for k in range(N):
        for j in range(N):
            if j != k and refs.get((k, j)) and not pos["O%d" % j] < pos["O%d" % k]:
                return False
    return True


def pick(i, n):
    for k in range(n):
        if i == k:
            return k
    raise IndexError(i)


def warm():
    bad = []
    import itertools
    for kind in range(len(KINDS)):
        for bits in itertools.product([False, True], repeat=6):
            refs = dict(zip([(0, 1), (0, 2), (1, 0), (1, 2), (2, 0), (2, 1)], bits))
            for pers in ((0, 0, 0), (1, 0, 1)):
                for dup in (0, 2):
                    if not check(3, refs, pers, kind, dup):
                        bad.append((kind, bits, pers, dup))
    return bad


if __name__ == "__main__":
    b = warm()
    print(len(b), b[:8])


def warm_light():
    """Concretely exercise every lazily-compiled path (networkx argmap functions: topological sort,
    weakly_connected_components, find_cycle) before CrossHair starts tracing."""
    for kind in range(len(KINDS)):
        check(3, {(0, 1): True, (2, 0): True}, [True, False, False], kind, 0)
        check(3, {(0, 1): True, (1, 0): True}, [False, False, True], kind, 0)   # cycle
        check(3, {(0, 1): True}, [False, False, False], kind, 2)                # duplicate
        check(4, {(0, 1): True, (1, 2): True, (2, 0): True, (3, 0): True}, [False] * 4, kind, 0)
