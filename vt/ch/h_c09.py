"""C09 harness core (Engine B): the real Cast.check_without_mask / Cast.dataset_validation / component_validation / scalar_validation
over symbolic (source type, target type) indices.  Oracle: the two tables of docs/data_types.rst parsed at import time
('Supported conversions without mask', 'Implicit Casting') and the documented generic measure names."""
from vt import boot

boot.boot()
from vt import docs  # noqa: E402
from vtlengine.DataTypes import Boolean, Date, Duration, Integer, Number, String, TimeInterval, TimePeriod  # noqa: E402
from vtlengine.Exceptions import SemanticError  # noqa: E402
from vtlengine.Model import Component, DataComponent, Dataset, Role, Scalar  # noqa: E402
from vtlengine.Operators.CastOperator import Cast  # noqa: E402

NAMES = ["String", "Number", "Integer", "Boolean", "Time", "Date", "Time_Period", "Duration"]
CLS = {"String": String, "Number": Number, "Integer": Integer, "Boolean": Boolean, "Time": TimeInterval, "Date": Date,
       "Time_Period": TimePeriod, "Duration": Duration}
TYPES = [CLS[n] for n in NAMES]
_exp = docs.matrix("docs/data_types.rst", "Supported conversions without mask")
_imp = docs.matrix("docs/data_types.rst", "Implicit Casting (Automatic)")
EXPLICIT = {(f, t) for (f, t), cell in _exp.items() if cell == "|y|"}
IMPLICIT = {(f, t) for (f, t), cell in _imp.items() if cell == "|y|"}
# documented generic measure names ('Cast on datasets')
_rows = docs.table("docs/data_types.rst", "Cast on datasets")
GENERIC = {r[0]: r[1] for r in _rows[1:]}


def pick(i, n):
    for k in range(n):
        if i == k:
            return k
    raise IndexError(i)


def allowed(f, t):
    """True / False, or None where the two documented tables disagree (an implicit promotion the explicit table does not list)"""
    if (f, t) in EXPLICIT:
        return True
    if (f, t) in IMPLICIT:
        return None
    return False


def _ds(t):
    comps = {"Id_1": Component(name="Id_1", data_type=Integer, role=Role.IDENTIFIER, nullable=False),
             "Me_1": Component(name="Me_1", data_type=t, role=Role.MEASURE, nullable=True)}
    return Dataset(name="DS_1", components=comps, data=None)


def _call(f, *a):
    try:
        return ("ok", f(*a))
    except SemanticError:
        return ("rej", None)
    except Exception as e:  # noqa
        return ("raw", type(e).__name__)


def table(i, j):
    """semantic acceptance at scalar, component and dataset level == documented table"""
    f, t = NAMES[pick(i, 8)], NAMES[pick(j, 8)]
    want = allowed(f, t)
    F, T = CLS[f], CLS[t]
    rs = [_call(Cast.validate, _ds(F), T, None),
          _call(Cast.validate, DataComponent(name="Me_1", data=None, data_type=F, role=Role.MEASURE, nullable=True), T, None),
          _call(Cast.validate, Scalar(name="sc", data_type=F, value=None), T, None)]
    if any(r[0] == "raw" for r in rs):
        return False
    if len({r[0] for r in rs}) != 1:
        return False            # the three levels must agree
    if want is None:
        return True
    return rs[0][0] == ("ok" if want else "rej")


def naming(i, j):
    """dataset level: result type = target; the measure keeps its name iff the source implicitly promotes to the target (documented), else
    takes the documented generic name; identifiers unchanged"""
    f, t = NAMES[pick(i, 8)], NAMES[pick(j, 8)]
    F, T = CLS[f], CLS[t]
    r = _call(Cast.validate, _ds(F), T, None)
    if r[0] != "ok":
        return True
    ds = r[1]
    ids = [c.name for c in ds.components.values() if c.role == Role.IDENTIFIER]
    ms = [c for c in ds.components.values() if c.role == Role.MEASURE]
    if ids != ["Id_1"] or len(ms) != 1 or ms[0].data_type is not T or not ms[0].nullable:
        return False
    want = "Me_1" if (f, t) in IMPLICIT else GENERIC[t]
    return ms[0].name == want


def warm(full=True):
    for i in range(8 if full else 1):
        for j in range(8 if full else 1):
            table(i, j)
            naming(i, j)
