"""Time_Period input / output at character level: the loader's acceptance function (real
`vtl_period_normalize` macro + real TIME_PERIOD_PATTERN, in the loader's order normalise-then-validate)
and the documented spellings of docs/data_types.rst as an oracle."""
import os

import z3

from vt import boot

boot.boot()
from vt.sqlsmt import cal, strmac as SM  # noqa: E402
from vt.sqlsmt.strmac import AND, OR, S, F, T, isdigit  # noqa: E402

ALPHABET = "0123456789ASQMWDasqmwd- "
ALPHA_CODES = [ord(c) for c in ALPHABET]
WIDTH = {"S": 1, "Q": 1, "M": 2, "W": 2, "D": 3}


def macro_eval():
    from vt.sqlsmt import harness as H
    mac, skipped = H.macros()
    return SM.MacroEval(mac)


def patterns():
    import vtlengine.duckdb_transpiler.io._validation as V
    return V


def symbolic_cell(L, prefix="c"):
    chars = [z3.Int("%s%d" % (prefix, i)) for i in range(L)]
    dom = [OR(*[c == a for a in ALPHA_CODES]) for c in chars]
    return chars, dom


def loader_accepts(me, chars):
    """the acceptance function of _validate_loaded_table for one non-null, non-empty Time_Period cell:
    UPDATE col = vtl_period_normalize(col) (a DuckDB error there = DataLoadError) ; then
    NOT regexp_matches(UPPER(TRIM(col)), TIME_PERIOD_PATTERN) = DataLoadError.   -> (accepted Bool, normalised S)"""
    V = patterns()
    n = me.call("vtl_period_normalize", S([(T, list(chars))]))
    norm_up = SM.upper(SM.trim(n))
    ok = SM.rx_match_s(V.TIME_PERIOD_PATTERN, norm_up)
    # a NULL result of normalize passes the check (col IS NOT NULL fails); '' likewise
    empty = OR(*[g for g, ch in n.alts if len(ch) == 0])
    accepted = z3.And(z3.Not(n.err), z3.Or(n.null, empty, ok))
    return accepted, n


def num(chars):
    v = z3.IntVal(0)
    for c in chars:
        v = v * 10 + (c - 48)
    return v


def digits(chars):
    return AND(*[isdigit(c) for c in chars])


def valid_number(ind, y, n):
    if ind == "A":
        return T
    if ind == "S":
        return z3.And(n >= 1, n <= 2)
    if ind == "Q":
        return z3.And(n >= 1, n <= 4)
    if ind == "M":
        return z3.And(n >= 1, n <= 12)
    if ind == "W":
        return z3.And(n >= 1, n <= cal.weeks_in_year(y))
    return z3.And(n >= 1, n <= cal.diy(y))


# documented spellings (docs/data_types.rst, "Accepted input formats"): (name, indicator, layout)
# layout: list of 'Y' (4 digit year), literal chars, ('n', k) a k-digit period number
FORMATS = [
    ("YYYY", "A", ["Y"]), ("YYYYA", "A", ["Y", "A"]), ("YYYY-A1", "A", ["Y", "-", "A", "1"]),
    ("YYYYSx", "S", ["Y", "S", ("n", 1)]), ("YYYY-Sx", "S", ["Y", "-", "S", ("n", 1)]),
    ("YYYYQx", "Q", ["Y", "Q", ("n", 1)]), ("YYYY-Qx", "Q", ["Y", "-", "Q", ("n", 1)]),
    ("YYYYMm", "M", ["Y", "M", ("n", 1)]), ("YYYYMmm", "M", ["Y", "M", ("n", 2)]), ("YYYY-MM", "M", ["Y", "-", ("n", 2)]),
    ("YYYY-M", "M", ["Y", "-", ("n", 1)]), ("YYYY-Mxx", "M", ["Y", "-", "M", ("n", 2)]), ("YYYY-Mx", "M", ["Y", "-", "M", ("n", 1)]),
    ("YYYYWw", "W", ["Y", "W", ("n", 1)]), ("YYYYWww", "W", ["Y", "W", ("n", 2)]), ("YYYY-Wxx", "W", ["Y", "-", "W", ("n", 2)]),
    ("YYYYDd", "D", ["Y", "D", ("n", 1)]), ("YYYYDdd", "D", ["Y", "D", ("n", 2)]), ("YYYYDddd", "D", ["Y", "D", ("n", 3)]),
    ("YYYY-Dx", "D", ["Y", "-", "D", ("n", 1)]), ("YYYY-Dxx", "D", ["Y", "-", "D", ("n", 2)]), ("YYYY-Dxxx", "D", ["Y", "-", "D", ("n", 3)]),
]


def layout_len(layout):
    return sum(4 if x == "Y" else (x[1] if isinstance(x, tuple) else 1) for x in layout)


def match_format(chars, layout):
    """-> (shape Bool, year term, number term or None)"""
    if layout_len(layout) != len(chars):
        return F, None, None
    pos, conds, y, n = 0, [], None, None
    for x in layout:
        if x == "Y":
            conds.append(digits(chars[pos:pos + 4]))
            y = num(chars[pos:pos + 4])
            pos += 4
        elif isinstance(x, tuple):
            conds.append(digits(chars[pos:pos + x[1]]))
            n = num(chars[pos:pos + x[1]])
            pos += x[1]
        else:
            conds.append(chars[pos] == ord(x))
            pos += 1
    return AND(*conds), y, n


def documented(chars):
    """-> (shape_ok: some documented layout fits, valid: ... with a calendar-valid number, denotes: [(cond, y, ind, n)])"""
    shapes, valids, den = [], [], []
    for name, ind, layout in FORMATS:
        sh, y, n = match_format(chars, layout)
        if z3.is_false(sh):
            continue
        n_ = z3.IntVal(1) if n is None else n
        v = z3.And(sh, valid_number(ind, y, n_))
        shapes.append(sh)
        valids.append(v)
        den.append((v, y, ind, n_, name))
    if len(chars) == 10:      # YYYY-MM-DD
        sh = AND(digits(chars[0:4]), chars[4] == 45, digits(chars[5:7]), chars[7] == 45, digits(chars[8:10]))
        y, m, d = num(chars[0:4]), num(chars[5:7]), num(chars[8:10])
        v = z3.And(sh, m >= 1, m <= 12, d >= 1, d <= cal.dim(y, m))
        shapes.append(sh)
        valids.append(v)
        den.append((v, y, "D", cal._days_from_civil(y, m, d) - cal._days_from_civil(y, z3.IntVal(1), z3.IntVal(1)) + 1, "YYYY-MM-DD"))
    return OR(*shapes), OR(*valids), den


def canonical_chars(y, ind, n):
    """char codes of the canonical internal spelling of (y, ind, n) - y a 4 digit year"""
    yd = [z3.IntVal(48) + (y / (10 ** k)) % 10 for k in (3, 2, 1, 0)]
    if ind == "A":
        return yd + [z3.IntVal(ord("A"))]
    w = WIDTH[ind]
    return yd + [z3.IntVal(45), z3.IntVal(ord(ind))] + [z3.IntVal(48) + (n / (10 ** k)) % 10 for k in reversed(range(w))]


def render_format(layout, y, n):
    out = []
    for x in layout:
        if x == "Y":
            out += [z3.IntVal(48) + (y / (10 ** k)) % 10 for k in (3, 2, 1, 0)]
        elif isinstance(x, tuple):
            out += [z3.IntVal(48) + (n / (10 ** k)) % 10 for k in reversed(range(x[1]))]
        else:
            out.append(z3.IntVal(ord(x)))
    return out


def equals_chars(s, chars):
    """string value s equals the char list"""
    return OR(*[AND(g, *[a == b for a, b in zip(ch, chars)]) for g, ch in s.alts if len(ch) == len(chars)])


def real_loader_accepts(cell, timeout=60):
    """Replay: does the REAL run() accept this Time_Period cell?  (classified by exception class, with a script that reads the
    column without returning it)  -> (accepted bool, detail)"""
    import pandas as pd
    from vt import realrun as R
    from vt.astb import assign, calc, drop, start, structure, unop
    from vtlengine.Exceptions import DataLoadError, InputValidationException
    st = structure("DS_1", [("Id_1", "Integer", "Identifier", False), ("Me_1", "Time_Period", "Measure", True)])
    ast = start(assign("DS_r", drop(calc("DS_1", [("measure", "Me_2", unop("isnull", "Me_1"))]), ["Me_1"])))
    df = pd.DataFrame({"Id_1": [1], "Me_1": pd.Series([cell], dtype=object)})
    try:
        R.run_ast(ast, R.structures(st), {"DS_1": df})
        return True, "accepted"
    except (DataLoadError, InputValidationException) as e:
        return False, "%s %s" % (type(e).__name__, str(e)[:120])
    except Exception as e:
        return None, "raw %s %s" % (type(e).__name__, str(e)[:160])


def real_normalize(cells):
    """real DuckDB evaluation of vtl_period_normalize + the loader's regex for a list of cells -> [(normalised or ('error', msg), matches)]"""
    import duckdb
    from vtlengine.duckdb_transpiler.sql import initialize_time_types
    V = patterns()
    conn = duckdb.connect(config={"threads": 1})
    initialize_time_types(conn)
    out = []
    for c in cells:
        try:
            n = conn.execute("SELECT vtl_period_normalize(?)", [c]).fetchone()[0]
            ok = None if n is None else conn.execute("SELECT regexp_matches(UPPER(TRIM(?)), ?)", [n, V.TIME_PERIOD_PATTERN]).fetchone()[0]
            out.append((n, ok))
        except duckdb.Error as e:
            out.append((("error", str(e)[:80]), False))
    conn.close()
    return out
