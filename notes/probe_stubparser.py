"""Install a stand-in for the unbuilt C++ parser extension so vtlengine's Python modules import."""
import sys, types
def install():
    name = "vtlengine.AST.Grammar._cpp_parser.vtl_cpp_parser"
    if name in sys.modules:
        return sys.modules[name]
    m = types.ModuleType(name)
    class ParseNode: pass
    class TerminalNode: pass
    m.ParseNode = ParseNode; m.TerminalNode = TerminalNode
    def parse(text): raise RuntimeError("compiled parser unavailable in this sandbox")
    m.parse = parse
    m.get_comments = lambda *a, **k: []
    m.get_input_text = lambda *a, **k: ""
    m.get_syntax_error = lambda *a, **k: None
    _tok = {}
    def __getattr__(attr):
        if attr.startswith("__"): raise AttributeError(attr)
        return _tok.setdefault(attr, -1000 - len(_tok))
    m.__getattr__ = __getattr__
    sys.modules[name] = m
    return m
