import sys; sys.path.insert(0, "/verif/notes")
import probe_stubparser as stubparser; stubparser.install()
import copy, pandas as pd, itertools
import vtlengine.API as API
import vtlengine.AST as A
from vtlengine.AST.DAG import DAGAnalyzer
P = dict(line_start=1, column_start=0, line_stop=1, column_stop=0)
def V(n): return A.VarID(value=n, **P)
REG = {}
def fake_create_ast(text):
    ast = copy.deepcopy(REG[text.strip()]); DAGAnalyzer.create_dag(ast); return ast
API.create_ast = fake_create_ast
def comp(n,t,r,nullable=None): return {"name":n,"type":t,"role":r,"nullable": (r!="Identifier") if nullable is None else nullable}

# --- viral enumerated non-associative rule, aggregation group
vp = A.ViralPropagationDef(name="vp1", signature_type="variable", target="At_1",
     enumerated_clauses=[A.EnumeratedVpClause(name=None, values=["A","B"], result="C", **P),
                         A.EnumeratedVpClause(name=None, values=["C","A"], result="A", **P)],
     aggregate_clause=None, default_value="D", **P)
agg = A.Aggregation(op="sum", operand=V("DS_1"), grouping_op="group by",
                    grouping=[A.Identifier(value="Id_1", kind="ComponentID", **P)], **P)
REG["@@v"] = A.Start(children=[vp, A.PersistentAssignment(left=V("DS_r"), op="<-", right=agg, **P)], **P)
ds = {"datasets":[{"name":"DS_1","DataStructure":[comp("Id_1","Integer","Identifier"),comp("Id_2","Integer","Identifier"),comp("Me_1","Integer","Measure"),comp("At_1","String","Viral Attribute")]}]}
rows = [(1,1,10,"A"),(1,2,20,"B"),(1,3,30,"A")]
seen = set()
for perm in itertools.permutations(rows):
    df = pd.DataFrame(list(perm), columns=["Id_1","Id_2","Me_1","At_1"])
    try:
        res = API.run("@@v", ds, {"DS_1": df})
        seen.add(tuple(res["DS_r"].data.iloc[0].tolist()))
    except Exception as e:
        print("ERR", type(e).__name__, e); break
print("viral group results over permutations:", seen)

# --- intersect with 3 operands
ds3 = {"datasets":[{"name":n,"DataStructure":[comp("Id_1","Integer","Identifier"),comp("Me_1","Integer","Measure")]} for n in ("DS_1","DS_2","DS_3")]}
for op in ("intersect","setdiff","symdiff","union"):
    REG["@@s"] = A.Start(children=[A.PersistentAssignment(left=V("DS_r"), op="<-", right=A.MulOp(op=op, children=[V("DS_1"),V("DS_2"),V("DS_3")], **P), **P)], **P)
    dp = {"DS_1": pd.DataFrame({"Id_1":[1,2,3],"Me_1":[1,1,1]}), "DS_2": pd.DataFrame({"Id_1":[2,3,4],"Me_1":[2,2,2]}), "DS_3": pd.DataFrame({"Id_1":[3,4,5],"Me_1":[3,3,3]})}
    try:
        res = API.run("@@s", ds3, dp)
        print(op, res["DS_r"].data.values.tolist())
    except Exception as e:
        print(op, "ERR", type(e).__name__, str(e)[:150])
