#!/bin/sh
# tools/confirm_seed.sh <id> <patch.diff> <demo.py>
# Confirms a seeded change in a scratch worktree: demo passes without it, fails with it, and the
# pinned 169-test baseline still passes with it.  Removes the worktree afterwards.
ID="$1"; PATCH="$2"; DEMO="$3"
WT=/tmp/wtc_$ID
git -C /repo worktree remove --force $WT 2>/dev/null
git -C /repo worktree add -q --detach $WT HEAD || exit 2
cd $WT
PYTHONPATH=$WT/src /venv/bin/python "$DEMO" >/tmp/wtc_$ID.before 2>&1; B=$?
git apply "$PATCH" || { echo "PATCH DOES NOT APPLY"; git -C /repo worktree remove --force $WT; exit 2; }
PYTHONPATH=$WT/src /venv/bin/python "$DEMO" >/tmp/wtc_$ID.after 2>&1; A=$?
T=$(/venv/bin/python -m pytest -q -p no:cacheprovider --timeout=900 --continue-on-collection-errors 2>&1 | tail -1)
echo "id=$ID demo_without=$B demo_with=$A tests: $T"
tail -3 /tmp/wtc_$ID.after | cut -c1-300
cd /; git -C /repo worktree remove --force $WT; rm -f /tmp/wtc_$ID.before /tmp/wtc_$ID.after
