"""ENGINE B: run CrossHair (symbolic execution of the repository's Python with z3) on harness
functions, one process per condition, and re-execute every counterexample in a plain interpreter.

Harness convention: a function `f(<symbolic ints/bools>) -> bool` with a PEP316 docstring
(`pre:` bounds, `post: _`) whose body calls the REAL vtlengine function and returns whether the
property held.  A reachability twin `f__reach` (same precondition, returns False at the very
end) must come back with a counterexample, otherwise the harness is vacuous.
"""
import ast
import concurrent.futures as cf
import importlib
import os
import re
import subprocess
import sys
import time

VERIF = os.path.dirname(os.path.dirname(os.path.dirname(os.path.abspath(__file__))))
REPO = os.environ.get("VT_REPO", "/repo")
CROSSHAIR = os.path.join(VERIF, ".venv", "bin", "crosshair")


def _lineno(path, func):
    tree = ast.parse(open(path).read())
    for n in ast.walk(tree):
        if isinstance(n, ast.FunctionDef) and n.name == func:
            return n.lineno
    raise KeyError(func)


def _one(path, func, timeout, env):
    line = _lineno(path, func)
    e = dict(os.environ)
    e["PYTHONPATH"] = os.pathsep.join([os.path.join(REPO, "src"), VERIF])
    e["PYTHONDONTWRITEBYTECODE"] = "1"
    e.update(env or {})
    t = time.time()
    try:
        p = subprocess.run([CROSSHAIR, "check", "--report_all", "--per_condition_timeout", str(timeout),
                            "--per_path_timeout", str(max(5, timeout // 4)),
                            "%s:%d" % (path, line)], capture_output=True, text=True, env=e,
                           timeout=timeout * 3 + 120)
        out = p.stdout + p.stderr
    except subprocess.TimeoutExpired as ex:
        out = "TIMEOUT " + str(ex)
    dt = time.time() - t
    res = dict(func=func, wall_s=round(dt, 2), raw=out.strip()[-1500:])
    if "Confirmed over all paths" in out:
        res["verdict"] = "confirmed"
    elif re.search(r"error: ", out):
        res["verdict"] = "counterexample"
        m = re.search(r"when calling (\w+)\((.*?)\)(?: \(which|\s*$)", out, re.M)
        if m:
            res["call"] = "%s(%s)" % (m.group(1), m.group(2))
            res["args"] = m.group(2)
    elif "Not confirmed" in out:
        res["verdict"] = "not_confirmed"
    elif "Unable to meet precondition" in out:
        res["verdict"] = "no_precondition"
    else:
        res["verdict"] = "error"
    return res


def run_conditions(path, funcs, timeout=60, env=None, workers=16):
    """-> {func: result}"""
    with cf.ThreadPoolExecutor(max_workers=workers) as ex:
        futs = {f: ex.submit(_one, path, f, timeout, env) for f in funcs}
        return {f: fu.result() for f, fu in futs.items()}


def replay_call(module_name, func, args_src, env=None):
    """Re-execute a CrossHair counterexample in a plain interpreter (fresh process).
    Returns True when the harness function really returns False (violation reproduces)."""
    code = (
        "import sys, importlib\n"
        "m = importlib.import_module(%r)\n"
        "r = getattr(m, %r)(%s)\n"
        "print('REPLAY_RESULT', r)\n" % (module_name, func, args_src)
    )
    e = dict(os.environ)
    e["PYTHONPATH"] = os.pathsep.join([os.path.join(REPO, "src"), VERIF])
    e.update(env or {})
    p = subprocess.run([sys.executable, "-c", code], capture_output=True, text=True, env=e, timeout=300)
    m = re.search(r"REPLAY_RESULT (\S+)", p.stdout)
    if not m:
        return None, (p.stdout + p.stderr)[-800:]
    return m.group(1) == "False", p.stdout[-400:]


def decide(rep, module_name, path, specs, timeout=60, env=None, prefix=""):
    """specs: list of (func, description, classify) ; classify(args_src)-> (key, what) for a
    counterexample.  Handles twins (func + '__reach') automatically when present in the file.
    Returns dict func -> status."""
    src = open(path).read()
    funcs = []
    for f, _, _ in specs:
        funcs.append(f)
        if re.search(r"def %s__reach\(" % re.escape(f), src):
            funcs.append(f + "__reach")
    res = run_conditions(path, funcs, timeout=timeout, env=env)
    status = {}
    for f, desc, classify in specs:
        r = res[f]
        tw = res.get(f + "__reach")
        oid = prefix + f
        if tw is not None and tw["verdict"] != "counterexample":
            rep.ob(oid, "undecided", r["wall_s"], nontrivial=False, desc=desc,
                   note="reachability twin verdict: %s" % tw["verdict"])
            if tw["verdict"] == "confirmed":
                rep.harness_error("vacuous harness %s (twin confirmed)" % f)
            status[f] = "undecided"
            continue
        if r["verdict"] == "confirmed":
            rep.ob(oid, "discharged", r["wall_s"], desc=desc, engine="crosshair", verdict="Confirmed over all paths")
            status[f] = "discharged"
        elif r["verdict"] == "counterexample":
            ok, out = replay_call(module_name, f, r.get("args", ""), env=env)
            if ok is True:
                key, what = classify(r.get("args", "")) if classify else (oid, desc)
                st = rep.violation(key, what, dict(engine="crosshair", harness=module_name, call=r.get("call"),
                                                   replay_cmd="PYTHONPATH=%s/src:%s %s -c 'import %s as m; print(m.%s)'" % (
                                                       REPO, VERIF, sys.executable, module_name, r.get("call")),
                                                   output=out))
                rep.ob(oid, st, r["wall_s"], desc=desc, engine="crosshair", counterexample=r.get("call"), key=key)
                status[f] = st
            else:
                rep.harness_error("counterexample %s did not reproduce in a plain interpreter: %s" % (r.get("call"), out))
                rep.ob(oid, "undecided", r["wall_s"], desc=desc, note="non-reproducing counterexample")
                status[f] = "undecided"
        else:
            rep.ob(oid, "undecided", r["wall_s"], nontrivial=False, desc=desc, note=r["verdict"], raw=r["raw"][-300:])
            status[f] = "undecided"
    return status
