#!/bin/sh
# tools/try_seed.sh <patch.diff> <check-id>...   apply a seeded change to /repo, run checks, undo.
P="$1"; shift
cd /repo || exit 2
git status --short | grep -q . && { echo "repo dirty"; exit 2; }
git apply "$P" || { echo "patch does not apply"; exit 2; }
for c in "$@"; do
  ( cd /verif && ./check $c --tier ${TIER:-quick} 2>&1 | grep -E "VIOLATION|KNOWN-FINDING|HARNESS|quick:|thorough:" | cut -c1-400 )
  echo "exit[$c]=$?"
done
git -C /repo checkout -- . ; git -C /repo status --short
