"""C30 harness: the real set_decimal_config / get_decimal_type / _parse_env_value with the
environment replaced by symbolic integers (os.getenv / os.environ.get are stubs returning them)."""
from vt import boot

boot.boot()
import os  # noqa: E402

import vtlengine.duckdb_transpiler.Config.config as cfg  # noqa: E402
import vtlengine.Utils._number_config as nc  # noqa: E402
from vtlengine.Exceptions import RunTimeError  # noqa: E402



class _LightRTE(RunTimeError):
    """Stub (part of the claim): message formatting is skipped - rendering the message realises the
    symbolic integers and forks one path per value; construction/rendering of errors is C26's subject."""

    def __init__(self, code=None, **kw):
        Exception.__init__(self, code)
        self.code = code


cfg.RunTimeError = _LightRTE
nc.RunTimeError = _LightRTE
UNSET = 99  # symbolic value standing for "variable not defined"


class _Env:
    def __init__(self, d):
        self.d = d

    def getenv(self, k, default=None):
        v = self.d.get(k)
        return default if v is None else v

    def get(self, k, default=None):
        return self.getenv(k, default)


class _OS:
    def __init__(self, d):
        e = _Env(d)
        self.getenv = e.getenv
        self.environ = e


def _apply(w, s, as_str=False):
    """Run the real set_decimal_config under env {WIDTH: w, SCALE: s}; -> 'ok' | 'rej' | 'raw:<T>'"""
    d = {}
    if w != UNSET:
        d[cfg.DECIMAL_WIDTH_ENV_VAR] = str(w) if as_str else w
    if s != UNSET:
        d[cfg.DECIMAL_SCALE_ENV_VAR] = str(s) if as_str else s
    cfg.os = _OS(d)
    try:
        try:
            cfg.set_decimal_config()
            return "ok"
        except RunTimeError:
            return "rej"
        except Exception as e:
            return "raw:" + type(e).__name__
    finally:
        cfg.os = os


def _reset():
    cfg.DECIMAL_WIDTH = cfg.DEFAULT_DECIMAL_WIDTH
    cfg.DECIMAL_SCALE = cfg.DEFAULT_DECIMAL_SCALE


def doc_ok(w, s):
    return (w == UNSET or w == -1 or 6 <= w <= 38) and (s == UNSET or s == -1 or 6 <= s <= 15)


def region(w, s):
    """Names the class of a failing setting (used as known-finding key)."""
    if w != UNSET and w > 38:
        return "width>38"
    if not doc_ok(w, s):
        return "undocumented-accepted" if True else ""
    ew = 28 if w == UNSET else (38 if w == -1 else w)
    es = 10 if s == UNSET else (15 if s == -1 else s)
    if ew < es:
        return "width<scale"
    return "other"


def accept_iff_documented(w, s):
    """accepted <=> inside the documented ranges (fresh process state)."""
    _reset()
    r = _apply(w, s)
    _reset()
    return r == ("ok" if doc_ok(w, s) else "rej")


def accepted_type_is_creatable(w, s, check_string=False):
    """accepted => DECIMAL(W,S) satisfies DuckDB's two rules (1<=W<=38, S<=W) and equals the documented values."""
    _reset()
    r = _apply(w, s)
    t = cfg.get_decimal_type() if check_string else None
    W, S = cfg.get_decimal_config()
    _reset()
    if r != "ok":
        return True
    ew = 28 if w == UNSET else (38 if w == -1 else w)
    es = 10 if s == UNSET else (15 if s == -1 else s)
    if check_string and t != "DECIMAL(" + str(W) + "," + str(S) + ")":
        return False
    return 1 <= W <= 38 and 0 <= S <= W and (W, S) == (ew, es)


def unset_means_default(w1, s1, w2, s2):
    """History independence: a run's effective configuration depends only on ITS environment.
    Two consecutive configurations in one process; the second must behave as in a fresh process."""
    _reset()
    _apply(w1, s1)
    r2 = _apply(w2, s2)
    got = cfg.get_decimal_config()
    _reset()
    f2 = _apply(w2, s2)
    want = cfg.get_decimal_config()
    _reset()
    return r2 == f2 and (r2 != "ok" or got == want)


def output_digits(v):
    """OUTPUT_NUMBER_SIGNIFICANT_DIGITS through the real _parse_env_value/get_effective_numeric_digits
    (string form): accepted <=> -1 or 6..15; effective digits as documented."""
    d = {} if v == UNSET else {nc.ENV_OUTPUT_SIGNIFICANT_DIGITS: str(v)}
    nc.os = _OS(d)
    try:
        try:
            got = ("ok", nc.get_effective_numeric_digits())
        except RunTimeError:
            got = ("rej", None)
        except Exception as e:
            got = ("raw", type(e).__name__)
    finally:
        nc.os = os
    if v == UNSET:
        return got[0] == "ok"
    if v == -1:
        return got == ("ok", None)
    if 6 <= v <= 15:
        return got == ("ok", v)
    return got[0] == "rej"


def warm():
    for w in (-5, -1, 5, 6, 28, 38, 39, UNSET):
        for s in (-1, 5, 6, 10, 15, 16, UNSET):
            accept_iff_documented(w, s), accepted_type_is_creatable(w, s)
            unset_means_default(w, s, UNSET, UNSET)
    for v in (-2, -1, 5, 6, 15, 16, UNSET):
        output_digits(v)


warm()
PRE2 = "(-5 <= w <= 45 or w == 99) and (-5 <= s <= 45 or s == 99)"


def eff(w, s):
    return (28 if w == UNSET else (38 if w == -1 else w)), (10 if s == UNSET else (15 if s == -1 else s))


def c_accept(w: int, s: int) -> bool:
    """
    pre: (-5 <= w <= 45 or w == 99) and (-5 <= s <= 45 or s == 99)
    post: _
    """
    return accept_iff_documented(w, s)


def c_accept__reach(w: int, s: int) -> bool:
    """
    pre: (-5 <= w <= 45 or w == 99) and (-5 <= s <= 45 or s == 99)
    post: _
    """
    accept_iff_documented(w, s)
    return False


def c_creatable_main(w: int, s: int) -> bool:
    """
    Every setting except the region of the recorded finding (documented width smaller than the scale).
    pre: (-5 <= w <= 45 or w == 99) and (-5 <= s <= 45 or s == 99)
    post: _
    """
    ew, es = eff(w, s)
    if doc_ok(w, s) and ew < es:
        return True
    return accepted_type_is_creatable(w, s)


def c_creatable_width_lt_scale(w: int, s: int) -> bool:
    """
    The region of the recorded finding only: documented settings whose width is below the scale.
    pre: (-5 <= w <= 45 or w == 99) and (-5 <= s <= 45 or s == 99)
    post: _
    """
    ew, es = eff(w, s)
    if not (doc_ok(w, s) and ew < es):
        return True
    return accepted_type_is_creatable(w, s)


def c_type_string(w: int, s: int) -> bool:
    """
    The DuckDB type text handed to CREATE TABLE is DECIMAL(<effective width>,<effective scale>).
    pre: (10 <= w <= 38 or w == 99 or w == -1) and (6 <= s <= 10 or s == 99)
    post: _
    """
    return accepted_type_is_creatable(w, s, True)


def c_history(w1: int, s1: int, w2: int, s2: int) -> bool:
    """
    pre: (4 <= w1 <= 40 or w1 == 99 or w1 == -1) and (5 <= s1 <= 16 or s1 == 99 or s1 == -1) and (w2 == 99 or 5 <= w2 <= 39 or w2 == -1) and (s2 == 99 or 5 <= s2 <= 16 or s2 == -1)
    post: _
    """
    return unset_means_default(w1, s1, w2, s2)


def c_history__reach(w1: int, s1: int, w2: int, s2: int) -> bool:
    """
    pre: (4 <= w1 <= 40 or w1 == 99 or w1 == -1) and (5 <= s1 <= 16 or s1 == 99 or s1 == -1) and (w2 == 99 or 5 <= w2 <= 39 or w2 == -1) and (s2 == 99 or 5 <= s2 <= 16 or s2 == -1)
    post: _
    """
    unset_means_default(w1, s1, w2, s2)
    return False


def c_output_digits(v: int) -> bool:
    """
    pre: -5 <= v <= 45 or v == 99
    post: _
    """
    return output_digits(v)


def c_output_digits__reach(v: int) -> bool:
    """
    pre: -5 <= v <= 45 or v == 99
    post: _
    """
    output_digits(v)
    return False
