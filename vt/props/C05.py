from vt import templates
from vt.props import _engine_a, _meta


def run(rep, tier):
    m = _meta.META["C05"]
    _engine_a.run(rep, tier, templates.c05(tier), functions=m["functions"], bounds=m["bounds"], outside=m["outside"])


def replay(path):
    from vt.props import _replay
    return _replay.replay_file("C05", path)
