"""C32 - execution failures surface as VTL errors, never as raw engine errors.

Engine A, error-site analysis.  For every script template the SQL emitted by the real transpiler is evaluated symbolically with the
*runtime-error sites* of the SQL kept as guarded events (error() calls of the VTL macros, DuckDB kernel domain errors - sqrt / ln / log
of a bad argument, MAKE_DATE / STRPTIME out of range -, BIGINT overflow of + - * abs and unary minus with Integer inputs ranging over the
whole int64 domain).  For every site the solver decides whether some load-valid input reaches it:
    unsat -> the site cannot fire (for any input within the row bound)
    sat   -> the witness input is pushed through the real run(); the obligation holds iff what escapes is a VTLEngineException with a
             catalogued code.  A raw duckdb / Python exception is the violation (class = site x exception class).
Second part: the output representation applied after execution (fetch_result -> apply_time_period_representation): for each output format
x period indicator the solver decides, over the character-level encoding of the real rendering macro, whether some valid period makes the
macro raise; the witness goes through run(time_period_output_format=...).
"""
import concurrent.futures as cf
import multiprocessing as mp
import os
import time

import z3

from vt import templates
from vt.sqlsmt import driver


def _pool(tier):
    out = templates.all_engine_a(tier, ("c01", "c02", "c03", "c04", "c05", "c06", "c07", "c28"))
    for t in templates.c08(tier):
        t = dict(t)
        t["id"] = "C08." + t["id"]
        out.append(t)
    if "c09" in vars(templates):
        for t in templates.c09(tier):
            if (t.get("opts") or {}).get("iv_class") in ("W", "X1", "X2", "X3"):
                continue        # calendar-heavy shards: their error sites are the same macro branches as the other interval shapes
            t = dict(t)
            t["id"] = "C09." + t["id"]
            out.append(t)
    out += templates.c32(tier)
    return out


def run(rep, tier):
    rep.functions = ["duckdb_transpiler.io._execution._map_query_error / execute_queries (through the real run() on every witness)",
                     "duckdb_transpiler.io._execution.fetch_result, io._time_handling.apply_time_period_representation (same)",
                     "SQLTranspiler.transpile (SQL regenerated from /repo on every run) + init.sql / time_operators.sql macros: every error() call and every modelled DuckDB kernel error",
                     "init.sql: vtl_period_to_vtl / _sdmx_reporting / _sdmx_gregorian / _natural (character-level encoding)"]
    rep.bounds = {"both tiers": "every template of C01-C08, C28 (+ cast templates) at its own row bound with Integer inputs over the whole BIGINT range [-2^63, 2^63-1], Number inputs within +-2^20; "
                                "one solver query per (template, error site): 'exists a load-valid input that fires this site'; the witness is executed by the real run(). "
                                "Output representation: 4 formats x 6 indicators, every year 1000-9999 and every valid period number",
                  "thorough": "thorough template sets (3-4 datapoints, wider year ranges)"}
    rep.outside = ["error sources that the encoding does not model as events: DOUBLE overflow to inf/nan, out-of-memory, INT32 arithmetic of literals, errors inside kernels kept uninterpreted "
                   "(the per-template self-check compares the error flag of the encoding with real DuckDB on random tables incl. extreme integers)",
                   "templates whose SQL is outside the encoder (listed as not_encoded)", "the parser (scripts are hand-built ASTs), CSV/Parquet output writing, scalar results",
                   "the class of the escaping exception is observed on one witness per site (the mapping in _map_query_error keys on the constant part of the message)"]
    rep.trusted = ["vt/sqlsmt evaluator + its error-event model (self-checked per template and per run against real DuckDB)", "z3", "hand-built AST shapes"]
    rep.assumptions = ["inputs satisfy what the loader enforces (identifiers non-null and unique)", "a VTL error = VTLEngineException subclass whose code is in Exceptions.messages.centralised_messages"]
    tpls = _pool(tier)
    t0 = time.time()
    results = []
    results = driver.pmap(driver.run_errors, tpls)
    for r in results:
        r.setdefault("subs", [])
        if r["status"] == "undecided" and not r["subs"]:
            r["status"] = "not_encoded"
            r["reason"] = "; ".join(r.get("notes") or ["undecided"])
    results.sort(key=lambda r: r["id"])
    nsites = 0
    cells = 0
    for r in results:
        cells += (r.get("selfcheck") or {}).get("cells", 0)
        if r["status"] == "not_encoded":
            rep.ob(r["id"], "not_encoded", 0, nontrivial=False, script=r.get("script"), reason=r.get("reason"))
            continue
        if r["status"] == "harness_error":
            rep.ob(r["id"], "undecided", 0, nontrivial=False, script=r.get("script"), reason=r.get("reason"))
            rep.harness_error("%s: %s" % (r["id"], r.get("reason")))
            continue
        if not r["subs"]:
            rep.ob(r["id"] + ":no-error-site", "discharged", 0, nontrivial=False, script=r.get("script"), how="the emitted SQL contains no modelled runtime-error site")
        for s in r["subs"]:
            nsites += 1
            if s["status"] == "violated":
                st = rep.violation(s["key"], s["what"], dict(template=r["id"], script=s["script"], inputs=s.get("inputs"), observed=s.get("observed"), site=s["tag"], run_kw=s.get("run_kw")))
                rep.ob(s["id"], st, s["solver_s"], key=s["key"], script=s["script"], what=s["what"], inputs=s.get("inputs"))
            elif s["status"] == "discharged":
                rep.ob(s["id"], "discharged", s["solver_s"], script=s["script"], verdict=s["verdict"], how=s["how"], observed=s.get("observed"))
                if s["verdict"] == "sat":
                    rep.sample(dict(site=s["id"], script=s["script"], witness=s.get("inputs"), observed=s.get("observed")))
            elif s["status"] == "lazy":
                rep.ob(s["id"], "undecided", s["solver_s"], nontrivial=False, script=s["script"], note=s["note"], inputs=s.get("inputs"))
            elif s["status"] == "harness_error":
                rep.ob(s["id"], "undecided", s["solver_s"], nontrivial=False, reason=s.get("reason"))
                rep.harness_error("%s: %s" % (s["id"], s.get("reason")))
            else:
                rep.ob(s["id"], "undecided", s["solver_s"], nontrivial=False, script=s["script"])
    rep.extra["templates"] = len(tpls)
    rep.extra["error_sites"] = nsites
    rep.extra["selfcheck_cells_compared_with_duckdb"] = cells
    _output_representation(rep, tier)
    _engine_b(rep, tier)
    from vt.props import _c32_mapper
    _c32_mapper.run_mapper(rep, tier)
    rep.extra["rule"] = ("one obligation = one (script template, runtime-error site): z3 decides whether a load-valid input reaches the site (unsat = unreachable within the bound); a reachable "
                         "site holds iff the real run() on the witness raises a VTLEngineException with a catalogued code; non-trivial = the template has such a site")


# ------------------------------------------------------------------------------------------ macro availability (CrossHair)
def _engine_b(rep, tier):
    """a macro that is used on the connection has been installed before (otherwise: raw CatalogException)"""
    from vt.ch import runner
    build = os.path.join(runner.VERIF, "build", "ch")
    os.makedirs(build, exist_ok=True)
    src = ['"""generated by vt/props/C32.py"""\nfrom vt.ch import h_c32 as H\nimport os\nH.warm(full=True)\n\n']
    specs = []
    U = len(__import__("vt.ch.h_c32", fromlist=["MACROS"]).MACROS)
    # one condition per output format (and per rop): the remaining flags are symbolic
    for fmt in range(4):
        for rop in (False, True):
            n = "macros2_f%d_r%d" % (fmt, rop)
            if tier == "quick":
                sig, pre = "a0: bool, a1: bool, b0: bool, b1: bool, u1: int", "0 <= u1 < %d" % U
                call = "H.check2(a0, a1, b0, b1, 0, u1, %d, True, False, %r)" % (fmt, rop)
            else:
                sig, pre = "a0: bool, a1: bool, b0: bool, b1: bool, u0: int, u1: int", "0 <= u0 < %d and 0 <= u1 < %d" % (U, U)
                call = "H.check2(a0, a1, b0, b1, u0, u1, %d, True, False, %r)" % (fmt, rop)
            for suffix, body in (("", "    return %s\n" % call), ("__reach", "    %s\n    return False\n" % call)):
                src.append("def %s%s(%s) -> bool:\n    \"\"\"\n    pre: %s\n    post: _\n    \"\"\"\n%s\n" % (n, suffix, sig, pre, body))
            specs.append((n, "2 statements, output format %d, return_only_persistent=%s: which inputs / results carry Time_Period components, which macro each statement calls are "
                             "symbolic (first statement persistent, second not); every vtl_* macro referenced by a statement, by loading a time-typed input or by the output representation was installed before" % (fmt, rop), None))
    if tier != "quick":
        for fmt in range(4):
            n = "macros3_f%d" % fmt
            sig = "a0: bool, a1: bool, a2: bool, b0: bool, b1: bool, b2: bool, u2: int, rop: bool"
            pre = "0 <= u2 < %d" % U
            call = "H.check3(a0, a1, a2, b0, b1, b2, 0, 0, u2, %d, rop)" % fmt
            for suffix, body in (("", "    return %s\n" % call), ("__reach", "    %s\n    return False\n" % call)):
                src.append("def %s%s(%s) -> bool:\n    \"\"\"\n    pre: %s\n    post: _\n    \"\"\"\n%s\n" % (n, suffix, sig, pre, body))
            specs.append((n, "3 statements, output format %d (same symbolic flags)" % fmt, None))
    path = os.path.join(build, "c32_gen.py")
    open(path, "w").write("".join(src))
    runner.decide(rep, "build.ch.c32_gen", path,
                  [(n, d, (lambda a, n=n: ("C32:macro-not-installed:%s" % n.split("_")[0], "a VTL macro is used on the connection before it is installed (raw CatalogException): %s(%s)" % (n, a))))
                   for n, d, _ in specs], timeout=100 if tier == "quick" else 400, prefix="crosshair:")
    rep.functions.append("io/_execution.py: execute_queries, load_scheduled_datasets, cleanup_scheduled_datasets, fetch_result, _contains_time_components; io/_time_handling.apply_time_period_representation; "
                         "sql/__init__.py: initialize_time_types, _required_macros_sql, _closure, _macro_graph (CrossHair, recording connection)")
    rep.assumptions.append("stub contract: loading an input with a Time_Period component executes a statement calling vtl_period_normalize; schema probes answer with the declared columns")


# ------------------------------------------------------------------------------------------ output representation
def _output_representation(rep, tier):
    from vt.sqlsmt import periodio as PIO
    from vt.sqlsmt.strmac import S, T
    from vt.props import C21
    me = PIO.macro_eval()
    y, n = z3.Int("y"), z3.Int("n")
    yd_ = [z3.IntVal(48) + (y / (10 ** k)) % 10 for k in (3, 2, 1, 0)]
    yr = [y >= 1000, y <= 9999, PIO.num(yd_) == y]
    fmts = {"vtl": "vtl_period_to_vtl", "sdmx_reporting": "vtl_period_to_sdmx_reporting", "sdmx_gregorian": "vtl_period_to_sdmx_gregorian", "natural": "vtl_period_to_natural"}
    for fmt, macro in fmts.items():
        for ind in "ASQMWD":
            oid = "output:%s:%s" % (fmt, ind)
            canon = PIO.canonical_chars(y, ind, n)
            cons = yr + [PIO.valid_number(ind, y, n) if ind != "A" else n == 1]
            if ind == "D" and fmt in ("sdmx_gregorian", "natural"):
                cons = cons + ([y >= 2019, y <= 2022] if tier == "quick" else [y >= 1900, y <= 2100])
            out = me.call(macro, S([(T, canon)]))
            s = z3.Solver()
            s.set("timeout", 120000)
            s.add(*cons)
            s.add(out.err)
            t = time.time()
            r = s.check()
            dt = time.time() - t
            if r == z3.unsat:
                rep.ob(oid, "discharged", dt, how="the rendering macro cannot raise for any valid %s period" % ind, verdict="unsat")
                rep.ob("cast-string:%s:%s" % (fmt, ind), "discharged", 0.0, how="same macro, same verdict", verdict="unsat")
                continue
            if r != z3.sat:
                rep.ob(oid, "undecided", dt, nontrivial=False)
                continue
            m = s.model()
            w = C21.PIO_render(m.eval(y, True).as_long(), ind, m.eval(n, True).as_long())
            # the same macro is reached on two paths: the representation applied when the result is fetched, and cast(tp, string) inside a statement
            for path, fn in (("output", _real_output), ("cast-string", _real_cast_string)):
                poid = "%s:%s:%s" % (path, fmt, ind)
                kind, name, msg = fn(w, fmt)
                if kind is None:
                    rep.harness_error("%s: macro error for %r in the encoding, but run() returns normally" % (poid, w))
                    rep.ob(poid, "undecided", dt, nontrivial=False)
                elif kind == "vtl":
                    rep.ob(poid, "discharged", dt, how="reachable (%r); surfaces as VTL error %s" % (w, name), verdict="sat")
                else:
                    key = "C32:%s:%s:%s-%s" % (path, fmt, kind, name)
                    what = "run(time_period_output_format=%r) %s %r lets %s %s escape: %s" % (fmt, "on a result holding" if path == "output" else "casting to string", w, kind, name, msg)
                    st = rep.violation(key, what, dict(output_format=fmt, period=w, observed=msg, path=path))
                    rep.ob(poid, st, dt, key=key, what=what, witness=w)
                dt = 0.0


def _real_cast_string(period, fmt):
    import pandas as pd
    from vt import realrun as R
    from vt.astb import assign, calc, cast, start, structure
    st = structure("DS_1", [("Id_1", "Integer", "Identifier", False), ("Me_1", "Time_Period", "Measure", True)])
    ast = start(assign("DS_r", calc("DS_1", [("measure", "Me_2", cast("Me_1", "string"))])))
    df = pd.DataFrame({"Id_1": [1], "Me_1": pd.Series([period], dtype=object)})
    try:
        R.run_ast(ast, R.structures(st), {"DS_1": df}, time_period_output_format=fmt)
        return None, None, None
    except Exception as e:  # noqa
        kind, name = driver.classify_exception(e)
        return kind, name, str(e)[:160]


def _real_output(period, fmt):
    import pandas as pd
    from vt import realrun as R
    from vt.astb import assign, start, structure, var
    st = structure("DS_1", [("Id_1", "Integer", "Identifier", False), ("Me_1", "Time_Period", "Measure", True)])
    ast = start(assign("DS_r", var("DS_1")))
    df = pd.DataFrame({"Id_1": [1], "Me_1": pd.Series([period], dtype=object)})
    try:
        R.run_ast(ast, R.structures(st), {"DS_1": df}, time_period_output_format=fmt)
        return None, None, None
    except Exception as e:  # noqa
        kind, name = driver.classify_exception(e)
        return kind, name, str(e)[:160]


def replay(path):
    import json
    import pandas as pd
    d = json.load(open(path))
    if "output_format" in d:
        r = (_real_cast_string if d.get("path") == "cast-string" else _real_output)(d["period"], d["output_format"])
        print(r)
        return 1 if r[0] not in (None, "vtl") else 0
    tpl = [t for tier in ("quick", "thorough") for t in _pool(tier) if t["id"] == d.get("template")]
    if not tpl:
        print("template %r not found" % d.get("template"))
        return 2
    t = tpl[0]
    from vt import realrun as R
    dfs = {}
    for name, rows in (d.get("inputs") or {}).items():
        stc = [s_ for s_ in t["structs"] if s_["name"] == name][0]
        dfs[name] = pd.DataFrame({c["name"]: pd.Series([r.get(c["name"]) for r in rows], dtype=object) for c in stc["DataStructure"]})
    structs = R.structures(*[s_ for s_ in t["structs"] if s_["name"] in dfs], scalars=t.get("scalars"))
    print("script:", d.get("script"))
    print("inputs:", json.dumps(d.get("inputs"))[:1000])
    try:
        R.run_ast(t["ast"], structs, dfs, **(d.get("run_kw") or {}))
        print("observed: run() returns normally")
        return 0
    except Exception as e:  # noqa
        kind, name = driver.classify_exception(e)
        print("observed: %s %s %s" % (kind, name, str(e)[:300]))
        if kind == "vtl":
            return 0
    print("VIOLATION property=C32 replay=%s" % path)
    return 1
