"""C27 harness: real to_vtl_json / load_datasets on real pysdmx objects chosen by symbolic indices.
Oracle: the role table and type table of docs/data_structures.rst (parsed at import)."""
from vt import boot

boot.boot()
import re  # noqa: E402

from crosshair.core import deep_realize, realize  # noqa: E402
from crosshair.tracers import NoTracing  # noqa: E402

from pysdmx.model import Component, Components, Concept, DataType, Role  # noqa: E402
from pysdmx.model.dataflow import Dataflow, DataStructureDefinition, Schema  # noqa: E402

from vt import docs  # noqa: E402
from vtlengine.API._InternalApi import load_datasets  # noqa: E402
from vtlengine.Exceptions import InputValidationException  # noqa: E402
from vtlengine.files.sdmx_handler import to_vtl_json  # noqa: E402

import vtlengine.API._InternalApi as _IA  # noqa: E402

# Stub (part of the claim): JSON-schema validation of the generated VTL JSON is skipped while tracing
# (jsonschema is ~20 s per path under CrossHair); it runs un-stubbed in warm() below.
_REAL_VALIDATE_JSON = _IA._validate_json
DTYPES = list(DataType)
ROLES = list(Role)

_tabs = [r for h, r in docs.list_tables("docs/data_structures.rst") if h == "Inside the conversion"]
DOC_ROLE = {}
DOC_TYPE = {}
for rows in _tabs:
    hdr = [c.lower() for c in rows[0]]
    if "sdmx role" in hdr[0]:
        for r in rows[1:]:
            DOC_ROLE[r[0].replace("`", "").split(".")[-1]] = (r[1].replace("`", ""), r[2].replace("`", "").lower() == "true")
    elif "sdmx data type" in hdr[0]:
        for r in rows[1:]:
            names = re.findall(r"``([A-Za-z_]+)``", r[0])
            for n in names:
                DOC_TYPE[n] = r[1].replace("`", "")
            if "reporting period variants" in r[0]:
                for v in re.findall(r"\(([^)]*)\)", r[0])[0].split(","):
                    DOC_TYPE["Reporting" + v.strip()] = r[1].replace("`", "")
assert len(DOC_ROLE) == 3 and len(DOC_TYPE) >= 30, (DOC_ROLE, DOC_TYPE)


def pick(i, n):
    """Concretise a symbolic index by explicit comparisons (one solver branch per value: exhaustive)."""
    for k in range(n):
        if i == k:
            return k
    raise IndexError(i)


def mk_component(i, di, ri):
    return Component(id="C%d" % i, required=True, role=ROLES[ri], concept=Concept("C%d" % i), local_dtype=DTYPES[di],
                     attachment_level="O" if ROLES[ri].name == "ATTRIBUTE" else None)


def mk_component_src(i, di, cj, src, ri):
    """how the data type is supplied: 0 local representation only, 1 the concept's core representation only, 2 both (local wins:
    pysdmx defines Component.dtype as the local type if present, else the concept's, else String)"""
    concept = Concept("C%d" % i) if src == 0 else Concept("C%d" % i, dtype=DTYPES[cj])
    return Component(id="C%d" % i, required=True, role=ROLES[ri], concept=concept, local_dtype=None if src == 1 else DTYPES[di],
                     attachment_level="O" if ROLES[ri].name == "ATTRIBUTE" else None)


def two_sources(kind, di, cj, src, via_loader):
    """1 measure component whose type comes from the local representation (di), the concept (cj) or both"""
    kind, di, cj, src = pick(kind, 3), pick(di, len(DTYPES)), pick(cj, len(DTYPES)), pick(src, 3)
    eff = cj if src == 1 else di
    t = DOC_TYPE.get(DTYPES[eff].value)
    with NoTracing():
        st = mk_structure(kind, [mk_component_src(0, di, cj, src, 1)])
    try:
        if via_loader:
            dss, _ = load_datasets(st)
            got = [c.data_type for c in dss["DS_1"].components.values()]
            from vtlengine.DataTypes import SCALAR_TYPES
            return t is not None and got == [SCALAR_TYPES[t]]
        j = to_vtl_json(st, "DS_1")
        got = [c["type"] for c in j["datasets"][0]["DataStructure"]]
        return t is not None and got == [t]
    except InputValidationException:
        return t is None
    except Exception:
        return False


def mk_structure(kind, comps):
    cs = Components(comps)
    if kind == 0:
        return Schema(context="datastructure", agency="AG", id="DS_1", components=cs, version="1.0")
    dsd = DataStructureDefinition(id="DS_1", agency="AG", version="1.0", components=cs)
    if kind == 1:
        return dsd
    return Dataflow(id="DS_1", agency="AG", version="1.0", structure=dsd)


def expected(comps_spec):
    """-> None when some dtype is not documented (must be rejected with InputValidationException),
    else list of (name, role, type, nullable) in dimensions, measures, attributes order."""
    out = []
    for want_role in ("DIMENSION", "MEASURE", "ATTRIBUTE"):
        for i, di, ri in comps_spec:
            if ROLES[ri].name != want_role:
                continue
            t = DOC_TYPE.get(DTYPES[di].value)
            if t is None:
                return None
            role, nullable = DOC_ROLE[want_role]
            out.append(("C%d" % i, role, t, nullable))
    return out


def check(kind, comps_spec, via_loader):
    # pysdmx objects are msgspec structs (C level): build them outside CrossHair's tracing from the
    # realised indices; the code under analysis (to_vtl_json / load_datasets) runs traced.
    kind = pick(kind, 3)
    comps_spec = [(i, pick(di, len(DTYPES)), pick(ri, 3)) for i, di, ri in comps_spec]
    want = expected(comps_spec)
    with NoTracing():
        st = mk_structure(kind, [mk_component(i, di, ri) for i, di, ri in comps_spec])
    try:
        if via_loader:
            dss, _ = load_datasets(st)
            ds = dss["DS_1"]
            got = [(n, c.role.value, None, c.nullable) for n, c in ds.components.items()]
            types = [c.data_type for c in ds.components.values()]
        else:
            j = to_vtl_json(st, "DS_1")
            got = [(c["name"], c["role"], c["type"], c["nullable"]) for c in j["datasets"][0]["DataStructure"]]
            types = None
    except InputValidationException:
        return want is None
    except Exception:
        return False
    if want is None:
        return False
    if via_loader:
        from vtlengine.DataTypes import SCALAR_TYPES
        if [SCALAR_TYPES[w[2]] for w in want] != types:
            return False
        return [(w[0], w[1], None, w[3]) for w in want] == got
    return want == got


def one(kind, di, ri, via_loader):
    return check(kind, [(0, di, ri)], via_loader)


def three(kind, p, di, r0, r1, r2, via_loader):
    """3 components; position p carries the symbolic dtype, the others cycle through fixed types."""
    roles = [r0, r1, r2]
    spec = []
    for i in range(3):
        spec.append((i, di if i == p else (0 + 7 * i) % len(DTYPES) if DTYPES[(7 * i) % len(DTYPES)].value in DOC_TYPE else 4, roles[i]))
    return check(kind, spec, via_loader)


def warm():
    bad = []
    for k in range(3):
        for di in range(len(DTYPES)):
            for ri in range(3):
                for v in (False, True):
                    if not one(k, di, ri, v):
                        bad.append((k, DTYPES[di].value, ROLES[ri].name, v))
    three(0, 1, 3, 0, 1, 2, False), three(1, 2, 5, 0, 0, 1, True)
    for src in range(3):
        for v in (False, True):
            if not two_sources(1, 3, 9, src, v):
                bad.append(("two_sources", src, v))
    return bad


_W = warm()
_IA._validate_json = lambda *a, **k: None
ND = len(DTYPES)


# representatives for the concept's core type when both representations are given: one per documented VTL type + undocumented ones
REPS = []
_seen = set()
for _k, _d in enumerate(DTYPES):
    _t = DOC_TYPE.get(_d.value)
    if _t not in _seen:
        _seen.add(_t)
        REPS.append(_k)
NR = len(REPS)


def c_src_concept(kind: int, cj: int) -> bool:
    """
    pre: 0 <= kind < 3 and 0 <= cj < ND
    post: _
    """
    return two_sources(kind, 0, cj, 1, False)


def c_src_concept__reach(kind: int, cj: int) -> bool:
    """
    pre: 0 <= kind < 3 and 0 <= cj < ND
    post: _
    """
    two_sources(kind, 0, cj, 1, False)
    return False


def c_src_both(di: int, r: int, via: bool) -> bool:
    """
    pre: 0 <= di < ND and 0 <= r < NR
    post: _
    """
    return two_sources(1, di, REPS[pick(r, NR)], 2, via)


def c_src_both__reach(di: int, r: int, via: bool) -> bool:
    """
    pre: 0 <= di < ND and 0 <= r < NR
    post: _
    """
    two_sources(1, di, REPS[pick(r, NR)], 2, via)
    return False


def c_one_json(kind: int, di: int, ri: int) -> bool:
    """
    pre: 0 <= kind < 3 and 0 <= di < ND and 0 <= ri < 3
    post: _
    """
    return one(kind, di, ri, False)


def c_one_json__reach(kind: int, di: int, ri: int) -> bool:
    """
    pre: 0 <= kind < 3 and 0 <= di < ND and 0 <= ri < 3
    post: _
    """
    one(kind, di, ri, False)
    return False


def c_one_loader(kind: int, di: int, ri: int) -> bool:
    """
    pre: 0 <= kind < 3 and 0 <= di < ND and 0 <= ri < 3
    post: _
    """
    return one(kind, di, ri, True)


def c_three_p0(kind: int, di: int, r0: int, r1: int, r2: int) -> bool:
    """
    pre: 0 <= kind < 3 and 0 <= di < ND and 0 <= r0 < 3 and 0 <= r1 < 3 and 0 <= r2 < 3
    post: _
    """
    return three(kind, 0, di, r0, r1, r2, False)


def c_three_p1(kind: int, di: int, r0: int, r1: int, r2: int) -> bool:
    """
    pre: 0 <= kind < 3 and 0 <= di < ND and 0 <= r0 < 3 and 0 <= r1 < 3 and 0 <= r2 < 3
    post: _
    """
    return three(kind, 1, di, r0, r1, r2, False)


def c_three_p2(kind: int, di: int, r0: int, r1: int, r2: int) -> bool:
    """
    pre: 0 <= kind < 3 and 0 <= di < ND and 0 <= r0 < 3 and 0 <= r1 < 3 and 0 <= r2 < 3
    post: _
    """
    return three(kind, 2, di, r0, r1, r2, False)


def c_three_loader(p: int, di: int, r0: int, r1: int, r2: int) -> bool:
    """
    pre: 0 <= p < 3 and 0 <= di < ND and 0 <= r0 < 3 and 0 <= r1 < 3 and 0 <= r2 < 3
    post: _
    """
    return three(0, pick(p, 3), di, r0, r1, r2, True)


if __name__ == "__main__":
    print(sorted(set(b[1] for b in _W)), len(_W))
