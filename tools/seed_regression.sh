#!/bin/sh
# tools/seed_regression.sh [seed ...]: runs every seeded change (default: all) against the checks listed in its meta.json "detected_by"
# (applies the patch to /repo, runs the quick check, restores /repo).  One line per pair.
cd "$(dirname "$0")/.."
SEEDS="$@"
[ -z "$SEEDS" ] && SEEDS=$(ls seeded)
for s in $SEEDS; do
  dets=$(.venv/bin/python -c "import json,sys; m=json.load(open('seeded/$s/meta.json')); print(' '.join(m.get('detected_by') or []))" 2>/dev/null)
  [ -z "$dets" ] && { echo "$s: no detecting check recorded"; continue; }
  for p in $dets; do
    tools/seed_matrix.sh $s:$p
  done
done
