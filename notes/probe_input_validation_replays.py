import sys; sys.path.insert(0, "/verif/notes")
import probe_stubparser as stubparser; stubparser.install()
import copy, pandas as pd
import vtlengine.API as API
import vtlengine.AST as A
from vtlengine.AST.DAG import DAGAnalyzer
P = dict(line_start=1, column_start=0, line_stop=1, column_stop=0)
def V(n): return A.VarID(value=n, **P)
REG = {}
def fake_create_ast(text):
    ast = copy.deepcopy(REG[text.strip()]); DAGAnalyzer.create_dag(ast); return ast
API.create_ast = fake_create_ast
def comp(n,t,r,nullable=None): return {"name":n,"type":t,"role":r,"nullable": (r!="Identifier") if nullable is None else nullable}
REG["@@id"] = A.Start(children=[A.PersistentAssignment(left=V("DS_r"), op="<-", right=V("DS_1"), **P)], **P)
def try_both(typ, val):
    ds = {"datasets":[{"name":"DS_1","DataStructure":[comp("Id_1","Integer","Identifier"),comp("Me_1",typ,"Measure")]}]}
    df = pd.DataFrame({"Id_1":[1],"Me_1":[val]})
    try:
        r = API.run("@@id", ds, {"DS_1": df.copy()}); a = ("ok", r["DS_r"].data["Me_1"].tolist())
    except Exception as e: a = ("ERR", type(e).__name__, str(e)[:80])
    try:
        API.validate_dataset(ds, {"DS_1": df.copy()}); b = "ok"
    except Exception as e: b = ("ERR", type(e).__name__, str(e)[:80])
    print(f"{typ:12} {val!r:16} run={a}  validate_dataset={b}")
for typ, val in [("Time_Period","2020-M13"),("Time_Period","2020M13"),("Time_Period","2021-W54"),("Time_Period","2021-D366"),("Time_Period","2020A1"),("Time_Period","2020-A"),
                 ("Time_Period","2020-13"),("Time_Period","2020-W53"),("Time_Period","2021-W53"),("Date","1700-01-01"),("Date","2021-02-30"),("Time","2021-02-30/2021-03-01"),("Time","2021-03-01/2021-01-01"),
                 ("Integer","0x1A"),("Integer","1.5"),("Duration","P1Y"),("Boolean","yes")]:
    try_both(typ, val)
# timeshift W53
ds = {"datasets":[{"name":"DS_1","DataStructure":[comp("Id_1","Time_Period","Identifier"),comp("Me_1","Integer","Measure")]}]}
REG["@@ts"] = A.Start(children=[A.PersistentAssignment(left=V("DS_r"), op="<-", right=A.BinOp(left=V("DS_1"), op="timeshift", right=A.Constant(type_="INTEGER_CONSTANT", value=0, **P), **P), **P)], **P)
try:
    r = API.run("@@ts", ds, {"DS_1": pd.DataFrame({"Id_1":["2020-W53","2021-W01"],"Me_1":[1,2]})})
    print("timeshift 0:", r["DS_r"].data.values.tolist())
except Exception as e: print("timeshift ERR", type(e).__name__, str(e)[:200])
