import probe_stubparser as stubparser; stubparser.install()
import os
import vtlengine.duckdb_transpiler.Config.config as cfg
from vtlengine.Exceptions import RunTimeError

def decimal_cfg(w: int, s: int) -> bool:
    """
    pre: -5 <= w <= 45 and -5 <= s <= 45
    post: _
    """
    cfg.DECIMAL_WIDTH = 28; cfg.DECIMAL_SCALE = 10
    getenv = os.getenv
    env = {cfg.DECIMAL_WIDTH_ENV_VAR: w, cfg.DECIMAL_SCALE_ENV_VAR: s}
    cfg.os = type("O", (), {"getenv": staticmethod(lambda k, d=None: env.get(k, d))})
    try:
        try:
            cfg.set_decimal_config()
            accepted = True
        except RunTimeError:
            accepted = False
    finally:
        cfg.os = os
    doc_ok = (w == -1 or 6 <= w <= 38) and (s == -1 or 6 <= s <= 15)
    return accepted == doc_ok
