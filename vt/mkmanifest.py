"""Regenerates /verif/MANIFEST.json from the registry below (run after adding a property driver)."""
import json
import os

VERIF = os.path.dirname(os.path.dirname(os.path.abspath(__file__)))

SMT = "bounded SMT (z3) over SQL regenerated from /repo's transpiler + macro files; counterexamples replayed through real run()"
CH = "CrossHair (symbolic execution of the repository's Python with z3), per-condition 'Confirmed over all paths'; counterexamples re-executed in a plain interpreter"

CHECKS = {
    "C01": dict(
        technique="bounded SMT (z3) equivalence between the SQL regenerated from the real transpiler and a VTL reference interpreter over symbolic tables; models replayed through run()",
        text="For ~500 script templates (incl. outer x inner nesting products over mono-measure, two-measure and String shapes, and measure-renaming operators used as operands) covering every element-wise operator group at dataset/dataset (equal and nested identifier sets), "
             "dataset/scalar, scalar/dataset, component/component and component/scalar level plus depth-2/3 compositions, the SQL the real transpiler emits "
             "(macros inlined from init.sql) is evaluated symbolically over ALL input tables of 2 (quick) / 3 (thorough) datapoints per dataset with nullable measures, "
             "and z3 decides that its result equals the VTL reference (matching on common identifiers, per-measure application, null propagation, Kleene logic, "
             "absent partners, division by zero => runtime error), incl. cross-family compositions, two-statement variants and a systematic outer x inner nesting product. unsat = holds within the bound; every sat model is replayed through the real run().",
        note="Trusted: sqlglot + my SQL semantics (self-checked per template against real DuckDB on random concrete tables on every run), z3, AST shapes. Reals stand for DOUBLE; "
             "round/ln/exp/... are uninterpreted symbols shared with the reference. More than 3 datapoints per dataset is outside.",
        ref="3 C01", engine="sqlsmt"),
    "C02": dict(technique='bounded SMT (z3) equivalence between the SQL regenerated from the real transpiler and a VTL reference interpreter over symbolic tables; models replayed through run()', engine="sqlsmt", ref="3 C02", note='Trusted: sqlglot + vt/sqlsmt SQL semantics (self-checked per template against real DuckDB on random concrete tables on every run), z3, hand-built AST shapes. Reals stand for DOUBLE.',
        text="Every single clause (filter, calc, keep, drop, rename, sub, unpivot), every well-typed chain of two (thorough: three), clauses applied to a join result and to the sub-query of every other operator family (~300 templates): the emitted SQL is "
             "evaluated symbolically over all input tables of 2 (thorough 3) datapoints and z3 decides equality with the reference (filter keeps TRUE rows only; calc adds/overwrites the "
             "named components; keep/drop/rename/sub touch only the listed components; sub fixes and removes identifiers). unsat = holds within the bound."),
    "C03": dict(technique='bounded SMT (z3) equivalence between the SQL regenerated from the real transpiler and a VTL reference interpreter over symbolic tables; models replayed through run()', engine="sqlsmt", ref="3 C03", note='Trusted: sqlglot + vt/sqlsmt SQL semantics (self-checked per template against real DuckDB on random concrete tables on every run), z3, hand-built AST shapes. Reals stand for DOUBLE.' + " var/stddev are shared symbols over (count, sum, sum of squares); median is defined by counting with witnesses.",
        text="sum avg count min max median var_pop var_samp (thorough + stddev_pop stddev_samp) with group by / group except / no grouping / aggr clause / having: the emitted SQL over all input "
             "tables of 3 (thorough 4) datapoints with nullable measures equals the reference (one datapoint per distinct group, aggregate of the non-null values, having keeps TRUE groups). "
             "Empty counts and count() over datapoints with null measures are don't-care values (the group must still exist); ungrouped aggregates of an empty operand are outside."),
    "C04": dict(technique='bounded SMT (z3) equivalence between the SQL regenerated from the real transpiler and a VTL reference interpreter over symbolic tables; models replayed through run()', engine="sqlsmt", ref="3 C04", note='Trusted: sqlglot + vt/sqlsmt SQL semantics (self-checked per template against real DuckDB on random concrete tables on every run), z3, hand-built AST shapes. Reals stand for DOUBLE.',
        text="inner/left/full/cross joins of 2-3 datasets with equal, nested and partially shared identifiers, with/without using and aliases, and trailing filter/calc/keep/drop/rename/aggr "
             "bodies: emitted SQL over all input tables of 2 (thorough 3) datapoints equals the relational join of the reference (keys once, alias#comp disambiguation, nulls on the missing side, "
             "coalesced keys for full joins)."),
    "C05": dict(technique='bounded SMT (z3) equivalence between the SQL regenerated from the real transpiler and a VTL reference interpreter over symbolic tables; models replayed through run()', engine="sqlsmt", ref="3 C05", note='Trusted: sqlglot + vt/sqlsmt SQL semantics (self-checked per template against real DuckDB on random concrete tables on every run), z3, hand-built AST shapes. Reals stand for DOUBLE.' + " UNION ALL is modelled as concatenation in branch order and ROW_NUMBER() OVER () as the position in it.",
        text="union/intersect (2-4 operands) and setdiff/symdiff over all operand tables of 2-3 datapoints with symbolic key overlaps and conflicting measures: the emitted SQL "
             "(UNION ALL + ROW_NUMBER + QUALIFY, SEMI/ANTI joins, CTEs) equals the keyed-set reference (union keeps the first operand holding a key; measures from the retained datapoint)."),
    "C10": dict(technique="bounded SMT (z3) invariant queries over the symbolic result of the SQL regenerated from the real transpiler + structure of a concrete run() against semantic_analysis()",
        engine="sqlsmt", ref="3 C10", note='Trusted: sqlglot + vt/sqlsmt SQL semantics (self-checked against real DuckDB in the C01-C05 checks), z3, hand-built AST shapes.' + " Value-level type conformity only (pandas dtypes are outside).",
        text="For every template of the behavioural properties (C01-C07, C09, C28: ~1200 scripts) the solver decides, over all input tables within the row bound, that no result datapoint has a null or repeated identifier, a null "
             "in a component semantic analysis declares non-nullable, a non-integral value in an Integer component, and that a dataset without identifiers has at most one datapoint; a solver-chosen "
             "concrete input is then pushed through the real run() and the returned names, roles, types, nullability and column order are compared with semantic_analysis()."),
    "C33": dict(technique="bounded SMT (z3) self-composition: the SQL regenerated from the real transpiler evaluated under two symbolic physical row orders of the same symbolic datapoints",
        engine="sqlsmt", ref="3 C33", note='Trusted: sqlglot + vt/sqlsmt SQL semantics (self-checked against real DuckDB in the C01-C05 checks), z3, hand-built AST shapes.' + " Physical order model: scan order of an input table = its row order; UNION ALL concatenates.",
        text="Each template (~1200 scripts of C01-C07, C09, C28) is evaluated twice over the same symbolic datapoints with two independent symbolic row orders per input (order indices feed ROW_NUMBER() OVER (), unordered list() "
             "and order ties); z3 decides the two results are equal as sets (unsat). Partial: input forms (CSV/Parquet) and column reordering are decided inside DuckDB/pandas and are outside."),
    "C06": dict(technique="bounded SMT (z3) equivalence between the window SQL regenerated from the real transpiler (partitions, orderings, ROWS/RANGE frames encoded over symbolic tables) and the VTL definition of each analytic function; models replayed through run()",
        engine="sqlsmt", ref="3 C06", note="Trusted: sqlglot + vt/sqlsmt window semantics (positions by counting, default/ROWS/RANGE frames; self-checked against real DuckDB per template), z3, AST shapes.",
        text="For ~70 (quick) / ~110 (thorough) analytic invocations - sum avg count min max first_value last_value lag lead rank ratio_to_report (thorough: median, var, stddev) with partition by / except, "
             "asc/desc order, data-point frames (offsets 0-2, unbounded, current) and range frames, at dataset level and inside calc - the emitted window SQL evaluated over all tables of 3 (4) datapoints "
             "equals the function over the datapoints of the partition inside the frame, under the statement's precondition of a total order."),
    "C07": dict(technique="bounded SMT (z3) equivalence between the validation / hierarchy SQL regenerated from the real transpiler and a reference written from the statement over symbolic tables; models replayed through run()",
        engine="sqlsmt", ref="3 C07", note="Trusted: sqlglot + vt/sqlsmt SQL semantics (self-checked per template against real DuckDB), z3, AST shapes of the ruleset nodes.",
        text="check (all/invalid, errorcode, errorlevel, imbalance), check_datapoint (rulesets of 1-2 rules incl. when/then, outputs invalid/all/all_measures) and check_hierarchy / hierarchy (rulesets "
             "of 1-2 rules over three code items, outputs invalid/all/all_measures/computed/all, modes non_null, always_null, always_zero, a dependent rule chain): over all input tables of 2-3 "
             "datapoints the emitted SQL returns exactly the datapoints / code items whose rule is FALSE (invalid) or every evaluated one with its outcome (all), errorcode/errorlevel exactly where "
             "FALSE, imbalance = left - right, and the computed items of '=' rules."),
    "C08": dict(technique="bounded SMT (z3, linear integer arithmetic) equivalence between the time macros / SQL regenerated from the real transpiler, evaluated over a calendar theory of DuckDB's date builtins, and the real Gregorian / ISO-8601 calendar; models replayed through run()",
        engine="sqlsmt", ref="3 C08", note="Trusted: vt/sqlsmt/cal.py (cross-validated against Python datetime over 1900-2100 and, per template, against real DuckDB on concrete values), z3, sqlglot, AST shapes.",
        text="Period year, number and dates are symbolic integers: for EVERY valid period / date of the year range (quick 1990-2030, thorough 1900-2100) and each indicator A S Q M W D, the SQL emitted for "
             "timeshift (incl. week 53 / day 366 and non-collision of shifted datapoints), getyear/getmonth/dayofmonth/dayofyear, datediff, dateadd, time_agg, period_indicator, flow_to_stock, stock_to_flow "
             "and period comparisons equals the calendar-correct result; runtime errors are required exactly where VTL defines them (ordering periods of different indicators, aggregating to a finer period)."),
    "C11": dict(
        technique="CrossHair symbolic execution of the real promotion functions and operator classes over symbolic type indices",
        text="Every obligation is a CrossHair condition over symbolic operand-type indices (all 9x9 pairs, all 9 unary types) calling the "
             "real promotion functions and the real validate/type_validation methods of every generic operator class of the registries "
             "at scalar, component and dataset level; the oracle is the implicit-cast table parsed from docs/data_types.rst at run time. "
             "'Confirmed over all paths' is required, so within the finite type domain the result is complete; bespoke operator classes are outside.",
        note="Trusted: CrossHair's model of Python, the RST table parser. Operator classes with bespoke validation are listed as outside the claim.",
        ref="3 C11"),
    "C12": dict(
        technique="CrossHair symbolic execution of the real DAGAnalyzer.create_dag over a symbolic statement-reference relation",
        text="The reference relation between N top-level statements (which statement mentions whose result), the persistent flags, the way a result is "
             "mentioned (operand, membership, scalar inside calc/filter, join operand, mixed) and a duplicated result name are symbolic booleans/indices; "
             "the real create_dag must raise the cycle error exactly when the relation is cyclic, reject a duplicated name, and otherwise return a "
             "permutation of the statements in which every producer precedes its consumers. Complete for N=3 (quick) and N=4 (thorough); every textual "
             "order of a script is another point of the same symbolic space. run()-level equality of results under permutation is an argument "
             "(statements are pure functions of their named inputs), not solved.",
        note="Trusted: CrossHair's model of Python (networkx runs under tracing after a concrete warm-up), hand-built AST shapes. N>=5 and UDO/ruleset definitions are outside.",
        ref="3 C12"),
    "C13": dict(
        technique="CrossHair symbolic execution of the real ds_structure schedule and the real execute_queries/load/cleanup control flow with recording stubs, over a symbolic reference relation",
        text="Which statement reads whose result, which statements read the second global input, and (per shard) the persistent flags and return_only_persistent are symbolic; the real "
             "DAGAnalyzer.ds_structure computes the schedule and the real execute_queries / load_scheduled_datasets / cleanup_scheduled_datasets run against event-recording stubs. The event "
             "log is checked against an abstract table store: every read finds its inputs live, each input is loaded once, nothing is released twice or before its last reader, statements run "
             "in DAG order and the returned keys are exactly the persistent assignments (or all). Complete for N=3 (quick; N=4 thorough).",
        note="Stubs (part of the claim): conn.execute, load_datapoints_duckdb, register_dataframes, fetch_result, initialize_time_types record events and never fail. Trusted: CrossHair.",
        ref="3 C13"),
    "C16": dict(
        technique="CrossHair symbolic execution of the real configured_connection / execute_queries with fault-injecting stubs; the crash point is a symbolic integer",
        category="model_checking",
        text="Partial. The real configured_connection, create_configured_connection, configure_duckdb_connection and execute_queries run against stubs for duckdb.connect, Path.mkdir, "
             "shutil.rmtree, uuid, conn.execute/create_function, loads and fetches; a symbolic k selects which external call raises. For every k (and no fault) the event log must show the "
             "session directory removed and the connection closed, and the fault must propagate. 'Confirmed over all paths' required. Faults inside DuckDB, real files and multi-fault runs are outside.",
        note="Stubs are part of the claim (each may raise once; close/rmtree do not fail). Trusted: CrossHair.",
        ref="3 C16"),
    "C28": dict(technique="bounded SMT (z3) equivalence between the SQL regenerated from the real transpiler + ViralPropagation/sql.py and the engine's documented propagation model over symbolic tables; models replayed through run()",
        engine="sqlsmt", ref="3 C28", note="Trusted: sqlglot + vt/sqlsmt SQL semantics incl. list_reduce/list()/LEAST/GREATEST (self-checked against real DuckDB per template), z3, AST shapes.",
        text="Rules registered through the real visit_ViralPropagationDef (enumerated tables with pair/single/default clauses in both declaration orders, non-associative tables, aggregate min/max/sum/avg). "
             "For ~105 templates the viral column of the emitted SQL is compared, over all inputs of 2-3 datapoints with nullable viral values, with the model: pairwise combination for ds-ds operators, "
             "joins and dataset-if; per-datapoint (enumerated) or whole-operand (aggregate) for row-preserving operators; group combination for aggregations; unchanged by clauses, assignment and set operators."),
    "C30": dict(
        technique="CrossHair symbolic execution of the real set_decimal_config/_parse_env_value with the environment as symbolic integers; z3 over a translation of _round_significant into real arithmetic",
        text="Partial. Decides, for every integer -5..45 (and 'not defined') of both variables at once, that a setting is accepted exactly when documented, "
             "that an accepted setting yields the documented DECIMAL(width,scale) that DuckDB can create, and that the effect of a configuration does "
             "not depend on the previous configuration of the process (2-run histories); and (z3, real arithmetic translated from the current source of _round_significant) that a fetched scalar is rounded to the configured "
             "number of significant digits for every value of 13 (17) decades and every setting 6..15. What DuckDB stores/rounds/sums under the setting is outside.",
        note="Stubs: os.getenv/os.environ.get return the symbolic values; error-message formatting skipped. Trusted: CrossHair, transcription of the documented ranges.",
        ref="3 C30"),
    "C19": dict(technique="SMT (z3) over a character-level encoding of the real vtl_period_normalize macro, the real loader patterns compiled to automata and the statement sequence recorded from the real _validate_loaded_table; witnesses replayed through run()",
        engine="sqlsmt", ref="3 C19", category="model_checking",
        note="Trusted: vt/sqlsmt/strmac.py (self-checked against real DuckDB), hand transcription of the documented formats, interpretation of the four SQL statement shapes the validation flow emits. "
             "Integer/Number/Boolean/String/Date cell parsing, CSV/Parquet and characters outside the alphabet are outside (DuckDB C++ kernels).",
        text="Partial (temporal cells + table-level checks of the DuckDB loader). For every Time_Period cell of length 4-10 over [0-9ASQMWDasqmwd -] z3 decides, per class of cell (spaces, lower case, "
             "undocumented layout, calendar-invalid number) and per outcome of the normalisation (nulled, read as each period shape), whether the loader accepts it - 224 complete queries; every documented "
             "spelling of every valid period (year 1000-9999) is accepted; Duration and Time cells likewise; for 2-datapoint tables with an Integer and a Time_Period identifier in any two documented "
             "layouts the recorded validate flow rejects exactly the duplicate keys; NOT NULL constraints are complete over role x nullable."),
    "C20": dict(technique="SMT (z3) over character-level encodings of BOTH acceptance functions (SQL: real normalize macro + loader pattern; Python: the real compiled regexes of _time_checking.py as automata + an integer summary of TimePeriodHandler proven equal to the real setters by CrossHair); witnesses replayed through run() and validate_dataset()",
        engine="sqlsmt", ref="3 C20", category="model_checking",
        note="The slicing glue of TimePeriodHandler.__init__ / from_input_customer_support_to_internal is a hand model: every solver witness is replayed through the real validate_dataset, and the model was validated on 160 sampled cells. "
             "Only Time_Period cells are covered; Date/Time/Duration/numeric cells, extra columns, duplicates and dtypes are outside.",
        text="Partial (Time_Period cells). For every cell of length 4-10 over [0-9ASQMWDasqmwd -] z3 decides per class of cell, direction (run() accepts / validate_dataset accepts) and normalisation outcome whether the two APIs "
             "disagree; for documented spellings of valid periods the question is decided per layout. 7 CrossHair conditions tie the integer range logic to the real TimePeriodHandler setters."),
    "C21": dict(technique="SMT (z3) over a character-level encoding of the real SQL macros (vtl_period_normalize, vtl_period_to_*) and the real TIME_PERIOD_PATTERN compiled to an automaton; witnesses replayed on real DuckDB / run()",
        engine="sqlsmt", ref="3 C21", category="model_checking",
        note="Trusted: vt/sqlsmt/strmac.py string semantics on the modelled alphabet (self-checked against real DuckDB on every run), cal.py, hand transcription of the two documented format tables, z3. "
             "Part (iv) of the statement (Python TimePeriodHandler vs SQL) is NOT claimed.",
        text="Partial. Year and period number are symbolic integers (every year 1000-9999, every number valid for the year): (i) each of the 22 documented input layouts and YYYY-MM-DD is accepted by the "
             "loader's normalise-then-validate pipeline and normalised to the canonical spelling of the same period; (ii) each of the 4 output macros renders each indicator exactly as the documented table "
             "says, or raises the VTL error where the format cannot express it; (iii) the rendered text read back through the loader yields the same period. 68 obligations, each a single unsat query."),
    "C26": dict(
        technique="ast scan of every raise site + CrossHair symbolic execution of the real exception constructors",
        text="All raise sites of coded VTL exceptions under src/vtlengine are found by an ast scan regenerated on each run (codes resolved by constant "
             "propagation); each (site, code) pair is an obligation: code in the catalogue and every placeholder supplied. The real constructors are then "
             "executed by CrossHair for every site with symbolic argument classes (including format metacharacters) and a symbolic output-dataset name. "
             "Statically complete for the scanned sites; errors raised dynamically while running a corpus are outside (no parser).",
        note="Trusted: the ast scanner, CrossHair. Argument values are drawn from small finite classes through symbolic indices.",
        ref="3 C26"),
    "C27": dict(
        technique="CrossHair symbolic execution of the real to_vtl_json/load_datasets over symbolic SDMX dtype/role indices",
        text="Every member of the installed pysdmx DataType and Role enumerations (symbolic indices) in Schema/DSD/Dataflow structures of 1 component "
             "(complete) and 3 components (all role combinations, symbolic dtype at each position) goes through the real to_vtl_json and the real "
             "load_datasets; the oracle is the role and type tables parsed from docs/data_structures.rst. Finite domain, 'Confirmed over all paths' required.",
        note="Stub: jsonschema validation skipped while tracing (run un-stubbed in the concrete warm-up). pysdmx objects are built outside tracing. run_sdmx() end-to-end is outside (parser).",
        ref="3 C27"),
    "C09": dict(technique="bounded SMT (z3) equivalence between the cast SQL regenerated from the real transpiler (+ the real conversion macros over a calendar theory) and the documented conversion rules over symbolic tables, models replayed through run(); CrossHair over the real Cast.validate for the 8x8 type table",
        engine="sqlsmt", ref="3 C09", category="model_checking",
        note="Partial. String sources (DuckDB's C++ string parsers), Duration, masks and the text of Number/Date renderings are outside; Number -> Integer is taken as truncation toward zero (VTL 2.2). "
             "Trusted: sqlglot + vt/sqlsmt semantics incl. the exact BIGINT->DOUBLE rounding model and cal.py (self-checked against real DuckDB per template), the RST table parser, CrossHair, z3.",
        text="(a) The real Cast.validate at scalar, component and dataset level accepts a (source, target) pair exactly when docs/data_types.rst lists it, and names the result measure as documented - CrossHair over symbolic type "
             "indices, all 8x8 pairs. (b) For ~90 templates the SQL emitted for cast() is evaluated over ALL tables of 2 datapoints: Integer/Number/Boolean conversions with Integer inputs over the whole int64 range "
             "(value preserved, 0 <-> false, truncation), string renderings (which value is rendered), Date -> Time_Period, Time_Period -> Date, Time -> Date and Time -> Time_Period for every date / period / "
             "interval of the year range (sharded by indicator and interval shape), including the converted value being used inside the script; runtime errors exactly where no conversion exists."),
    "C29": dict(technique="bounded SMT (z3) equivalence between the SQL regenerated from the real transpiler and a case-sensitive VTL reference over symbolic tables, for contexts with case-variant names; schema-level failures (input independent) reported from a concrete probe of the real run()",
        engine="sqlsmt", ref="3 C29", category="model_checking",
        note="Partial: 19 contexts. Where DuckDB's case-insensitive identifier resolution makes the statement or the load fail for every input (listed as known findings) there is nothing for a solver to quantify over: those are reported by running the real engine. "
             "Trusted: sqlglot + vt/sqlsmt (column resolution is case-insensitive like DuckDB's; self-checked per template), z3.",
        text="For every context in which a component, identifier, result or dataset name differs from another only in letter case (rename to a variant followed by filter / calc / keep / a binary operator / union, swapping "
             "case variants, aggr and join-rename aliases, calc adding a variant, inputs that already hold variants, results DS_r / ds_r, inputs DS_4 / ds_4) the emitted SQL over all tables of 2 datapoints equals the "
             "reference in which names are compared exactly: each variant keeps its own values and appears in the result."),
    "C32": dict(technique="bounded SMT (z3) reachability of every runtime-error site of the SQL regenerated from the real transpiler (error() calls of the macros, DuckDB kernel domain errors, BIGINT overflow) over symbolic tables; each witness is executed by the real run() and the escaping exception classified",
        engine="sqlsmt", ref="3 C32", category="model_checking",
        note="Partial. Trusted: the evaluator's error-event model (self-checked per template against real DuckDB, incl. extreme integers; events over-approximate because DuckDB evaluates projections lazily - every reachable site is confirmed on the real engine), z3. "
             "The exception class is observed on one witness per (template, site); DOUBLE overflow, out-of-memory, scalar results, file outputs and the parser are outside. Un-encodable SQL is probed concretely (auxiliary).",
        text="For every template of C01-C08 and C28 plus error-oriented templates (~1300 scripts) with Integer inputs over the whole int64 range, z3 decides per runtime-error site whether a load-valid input reaches it "
             "(unsat = the site cannot fire within the row bound); for a reachable site the witness is run through the real run() and must raise a VTLEngineException with a catalogued code. The output "
             "representation macros (4 formats x 6 indicators, every year 1000-9999 and valid number) are decided at character level and replayed through both fetch_result and cast(.., string)."),
}

NOT_APPLICABLE = {
    "C14": "output-folder equality is decided inside DuckDB's C++ COPY writer and pandas/pyarrow readers; the Python side only hands the same SELECT string to both - no code a solver can execute",
    "C15": "quantifies over DuckDB's scheduler/storage engine (threads, file-backed DB, memory limit); the only SQL-level candidate (union ROW_NUMBER() OVER ()) does not replay on DuckDB 1.5.5, so a model could only raise unconfirmable alarms",
    "C17": "thread interleavings of CPython plus C++ global state; CrossHair does not model concurrency and an interleaving model would not be the real code",
    "C18": "CSV sniffer / Arrow scan / Parquet reader / string->number cast kernels are DuckDB C++ internals; a model of them could only be learned by sampling DuckDB",
    "C22": "heap-aliasing property across pandas/pyarrow/msgspec objects; symbolic execution realises at those C boundaries, leaving only concrete calls (testing)",
    "C23": "the C++ ANTLR parser extension cannot be built in this sandbox (no pybind11 / ANTLR runtime sources) and is out of reach of a hand translator",
    "C24": "needs re-parsing with the unbuildable parser; the residual literal rendering goes through C-level float formatting that the solver cannot encode",
    "C25": "starts and ends with the unbuildable parser (generate_sdmx parses, run() re-parses)",
    "C31": "ANTLR ALL(*) prediction inside generated C++; unbuildable here and out of reach of a hand translator",
}


def build():
    ids = [json.loads(l)["id"] for l in open(os.path.join(VERIF, "properties.jsonl"))]
    checks = []
    for pid in ids:
        if pid not in CHECKS:
            continue
        c = CHECKS[pid]
        checks.append(dict(
            property_id=pid,
            quick_cmd="./check %s --tier quick" % pid,
            thorough_cmd="./check %s --tier thorough" % pid,
            evidence_file="evidence/%s.json" % pid,
            replay_cmd_template="./check %s --replay {path}" % pid,
            engine=c.get("engine", "crosshair" if "CrossHair" in c["technique"] and "SMT" not in c["technique"] else "sqlsmt"),
            level_claimed=dict(category=c.get("category", "model_checking"), text=c["text"], design_ref=c["ref"]),
            level_note=c["note"],
            technique=c["technique"],
        ))
    na = []
    for pid in ids:
        if pid in CHECKS:
            continue
        na.append(dict(property_id=pid, reason=NOT_APPLICABLE.get(pid, "not yet built: planned in DESIGN.md; no check is registered for it at this commit")))
    m = dict(
        version=1,
        setup_cmd="./setup.sh",
        hooks=dict(guard="MEANINGFUL_DATA_VTLENGINE_VERIF", enable="no source hooks are needed: stubs live in /verif's harness (vt/boot.py); ./check exports MEANINGFUL_DATA_VTLENGINE_VERIF=1 for uniformity",
                   baseline_off_cmd="cd /repo && /venv/bin/python -m pytest -ra -q -p no:cacheprovider --timeout=900 --continue-on-collection-errors",
                   source_commits=[], add_only=True),
        engines=[
            dict(name="sqlsmt", path="vt/sqlsmt", serves_properties=[p for p in ids if p in CHECKS and CHECKS[p].get("engine", "") != "crosshair" and "SMT" in CHECKS[p]["technique"]],
                 kind_free_text="bounded symbolic evaluator (z3) for the DuckDB SQL emitted by the real transpiler and the real macro library"),
            dict(name="crosshair", path="vt/ch", serves_properties=[p for p in ids if p in CHECKS and "CrossHair" in CHECKS[p]["technique"]],
                 kind_free_text="CrossHair harnesses over the repository's pure-Python integer / finite-domain code"),
        ],
        checks=checks,
        not_applicable=na,
        notes="Solver-based checking of the real code; see DESIGN.md. Exit 2 of ./check = harness error (never a violation).",
    )
    with open(os.path.join(VERIF, "MANIFEST.json"), "w") as f:
        json.dump(m, f, indent=1)
    return m


if __name__ == "__main__":
    m = build()
    try:
        import jsonschema
        jsonschema.validate(m, json.load(open("/root/.vp/MANIFEST.schema.json")))
        for c in m["checks"]:
            p = os.path.join(VERIF, c["evidence_file"])
            if os.path.exists(p):
                jsonschema.validate(json.load(open(p)), json.load(open("/root/.vp/EVIDENCE.schema.json")))
        print("MANIFEST valid:", len(m["checks"]), "checks,", len(m["not_applicable"]), "n/a")
    except ImportError:
        print("written (jsonschema unavailable)")
