import sys; sys.path.insert(0, "/verif/notes")
import probe_stubparser as stubparser; stubparser.install()
import vtlengine.AST as A
from vtlengine.AST.DAG import DAGAnalyzer
from vtlengine.Exceptions import SemanticError
P = dict(line_start=1, column_start=0, line_stop=1, column_stop=0)
def V(n): return A.VarID(value=n, **P)
N = 3
def _warm():
    st = [A.Assignment(left=V("A"), op=":=", right=V("G"), **P), A.Assignment(left=V("B"), op=":=", right=V("A"), **P)]
    DAGAnalyzer.create_dag(A.Start(children=st, **P))
    try:
        st = [A.Assignment(left=V("A"), op=":=", right=V("B"), **P), A.Assignment(left=V("B"), op=":=", right=V("A"), **P)]
        DAGAnalyzer.create_dag(A.Start(children=st, **P))
    except SemanticError: pass
_warm()
def dag_ok(r01: bool, r02: bool, r10: bool, r12: bool, r20: bool, r21: bool, g0: bool, g1: bool, g2: bool, dup: bool) -> bool:
    """
    post: _
    """
    refs = {(0,1):r01,(0,2):r02,(1,0):r10,(1,2):r12,(2,0):r20,(2,1):r21}
    gl = [g0,g1,g2]
    names = ["A","B","A" if dup else "C"]
    stmts = []
    for i in range(N):
        ops = [V(names[j]) for j in range(N) if j != i and refs[(i,j)]]
        if gl[i] or not ops: ops.append(V("G"))
        e = ops[0]
        for o in ops[1:]:
            e = A.BinOp(left=e, op="+", right=o, **P)
        stmts.append(A.Assignment(left=V(names[i]), op=":=", right=e, **P))
    ast = A.Start(children=list(stmts), **P)
    # spec: cycle detection on reference relation by name
    reads = {i: {names[j] for j in range(N) if j != i and refs[(i,j)]} for i in range(N)}
    prod = {}
    for i in range(N): prod.setdefault(names[i], []).append(i)
    try:
        DAGAnalyzer.create_dag(ast)
        raised = None
    except SemanticError as e:
        raised = e.args[1]
    if raised is None:
        order = [s.left.value for s in ast.children]
        if sorted(order) != sorted(names):
            open("/verif/probe/dbg.log","a").write(f"perm {order} {names}\n"); return False
        if len(set(names)) != len(names):
            open("/verif/probe/dbg.log","a").write(f"dup {order} {names}\n"); return False
        pos = {n: k for k, n in enumerate(order)}
        for i in range(N):
            for n in reads[i]:
                if pos[n] >= pos[names[i]]:
                    open("/verif/probe/dbg.log","a").write(f"order {order} {names} {reads} {i} {n}\n"); return False
        return True
    if raised not in ("1-3-2-3", "1-2-2"): open("/verif/probe/dbg.log","a").write(f"raised {raised}\n")
    return raised in ("1-3-2-3", "1-2-2")

if __name__ == "__main__":
    import copy
    P2 = P
    stmts = [A.Assignment(left=V("A"), op=":=", right=V("G"), **P), A.Assignment(left=V("B"), op=":=", right=V("C"), **P), A.Assignment(left=V("C"), op=":=", right=V("G"), **P)]
    ast = A.Start(children=stmts, **P)
    d = DAGAnalyzer.create_dag(ast)
    print([s.left.value for s in ast.children], d.sorting, d.dependencies, d.edges, d.vertex)
