"""A small symbolic interpreter (Python AST -> z3 strings) for the message-mapping functions of io/_execution.py.

`_map_query_error` is string-parsing Python: CrossHair realises its argument character by character (probed: it enumerates code points), so
the function is translated instead.  The translator is regenerated from the function's CURRENT source on every run (inspect + ast) and covers
exactly the constructs that source uses:

  str(x)  .lower()  .strip()  .split(sep[, 1])  .rsplit(sep, 1)  x[i] / x[-1] / x[:1]  len(list) >= n  a in b  and/or/not
  conditional expressions, tuple assignment, if / return, calls of sibling helper functions (inlined), re.search(...) with .group(n),
  isinstance(error, duckdb.<Class>), keyword calls of RunTimeError / SemanticError (placeholders checked against the message catalogue)

Values: a message is Concat(concrete prefix, v, concrete suffix) with v a z3 String (the user-controlled part of a real DuckDB message);
.lower() lowers the concrete parts and assumes v has no upper-case letter (stated).  A list produced by split is kept lazily (string,
separator): indexing piece k needs k separators, otherwise an IndexError event is recorded under the path condition.  .strip() is an
uninterpreted function constrained to return a substring.  Anything else raises NotEncoded: the function is then reported as not encoded.

Events (each a solver query: path condition AND event condition; a model is replayed on the REAL function before it is believed):
  IndexError on split(...)[k], AttributeError on m.group() with m None, a missing placeholder of the error constructor,
  and `raw`: a data error (duckdb.DataError subclass) for which the function returns the original exception instead of a VTL error.
"""
import ast
import inspect
import textwrap

import z3


class NotEncoded(Exception):
    pass


class SStr:
    """symbolic string; `low` = the same string lower-cased (kept alongside: z3 has no to_lower)"""

    def __init__(self, t, low=None, parts=None, low_parts=None):
        self.t = t
        self.low = low if low is not None else t
        self.parts = parts              # (prefix str, z3 var, suffix str) when the string is exactly prefix + v + suffix
        self.low_parts = low_parts


def contains_structured(parts, needle):
    """Contains(prefix + v + suffix, needle) for a literal needle, as a formula over v alone"""
    pre, v, suf = parts
    if needle in pre or needle in suf:
        return z3.BoolVal(True)
    n = len(needle)
    alts = [z3.Contains(v, z3.StringVal(needle))] if n > 0 else [z3.BoolVal(True)]
    for la in range(0, min(n, len(pre)) + 1):
        if la and pre[-la:] != needle[:la]:
            continue
        for lc in range(0, min(n - la, len(suf)) + 1):
            if la == 0 and lc == 0:
                continue
            if lc and suf[:lc] != needle[n - lc:]:
                continue
            mid = z3.StringVal(needle[la:n - lc])
            if la and lc:
                alts.append(v == mid)
            elif la:
                alts.append(z3.PrefixOf(mid, v))
            else:
                alts.append(z3.SuffixOf(mid, v))
    return z3.Or(*alts)


class SList:
    """result of s.split(sep) / s.split(sep, 1) / s.rsplit(sep, 1) kept lazily; or a literal python list of SStr"""

    def __init__(self, s=None, sep=None, mode="all", items=None):
        self.s, self.sep, self.mode, self.items = s, sep, mode, items


class SMatch:
    def __init__(self, found):
        self.found = found      # z3 Bool


def sv(x):
    return z3.StringVal(x)


class Interp:
    def __init__(self, module, fname, msg, error_classes, ctx_assume=(), alphabet=None):
        """msg: SStr ; error_classes: set of class names the concrete exception is an instance of"""
        self.module = module
        self.msg = msg
        self.error_classes = error_classes
        self.events = []        # (kind, cond list, description)
        self.returns = []       # (pc list, value)
        self.assume = list(ctx_assume)
        self.n = 0
        self.fname = fname
        self.alphabet = alphabet        # characters the symbolic part can hold (None = unknown)

    # ---------------------------------------------------------------- helpers
    def fresh(self, p, sort=None):
        self.n += 1
        return z3.Const("%s!%d" % (p, self.n), sort if sort is not None else z3.StringSort())

    def func_ast(self, name):
        f = getattr(self.module, name)
        return ast.parse(textwrap.dedent(inspect.getsource(f))).body[0]

    def run(self):
        fn = self.func_ast(self.fname)
        args = [a.arg for a in fn.args.args]
        env = {args[0]: ("error",)}
        for a in args[1:]:
            env[a] = SStr(sv("<arg>"))
        self.block(fn.body, env, [], self._ret_top)

    def _ret_top(self, pc, val):
        self.returns.append((list(pc), val))

    # ---------------------------------------------------------------- statements (continuation passing: forks on symbolic conditions)
    def block(self, stmts, env, pc, ret, k=None):
        if not stmts:
            if k is not None:
                k(env, pc)
            else:
                ret(pc, None)
            return
        st, rest = stmts[0], stmts[1:]
        cont = lambda e, p: self.block(rest, e, p, ret, k)  # noqa: E731
        if isinstance(st, ast.Expr) and isinstance(st.value, ast.Constant):
            return cont(env, pc)                       # docstring
        if isinstance(st, (ast.Import, ast.ImportFrom)):
            return cont(env, pc)
        if isinstance(st, ast.Return):
            for p2, v in self.ev(st.value, env, pc):
                ret(p2, v)
            return
        if isinstance(st, ast.Assign):
            if len(st.targets) != 1:
                raise NotEncoded("multiple assignment targets")
            tgt = st.targets[0]
            for p2, v in self.ev(st.value, env, pc):
                e2 = dict(env)
                if isinstance(tgt, ast.Name):
                    e2[tgt.id] = v
                elif isinstance(tgt, ast.Tuple) and isinstance(v, tuple) and len(v) == len(tgt.elts):
                    for t_, v_ in zip(tgt.elts, v):
                        e2[t_.id] = v_
                else:
                    raise NotEncoded("assignment target")
                cont(e2, p2)
            return
        if isinstance(st, ast.AnnAssign) and st.value is not None and isinstance(st.target, ast.Name):
            for p2, v in self.ev(st.value, env, pc):
                e2 = dict(env)
                e2[st.target.id] = v
                cont(e2, p2)
            return
        if isinstance(st, ast.If):
            for p2, c in self.ev(st.test, env, pc):
                c = self.truth(c)
                for branch, cond in ((st.body, c), (st.orelse, z3.Not(c))):
                    cc = z3.simplify(cond)
                    if z3.is_false(cc):
                        continue
                    p3 = p2 if z3.is_true(cc) else p2 + [cc]
                    if not self.feasible(p3):
                        continue
                    self.block(list(branch), dict(env), p3, ret, lambda e, p: self.block(rest, e, p, ret, k))
            return
        raise NotEncoded("statement %s" % type(st).__name__)

    def feasible(self, pc):
        s = z3.Solver()
        s.set("timeout", 5000)
        s.add(*self.assume)
        s.add(*pc)
        return s.check() != z3.unsat

    def truth(self, v):
        if isinstance(v, bool):
            return z3.BoolVal(v)
        if z3.is_bool(v):
            return v
        if isinstance(v, SStr):
            return z3.Length(v.t) > 0
        if isinstance(v, SMatch):
            return v.found
        if v is None:
            return z3.BoolVal(False)
        raise NotEncoded("truth of %r" % (v,))

    # ---------------------------------------------------------------- expressions: generator of (pc, value)
    def ev(self, e, env, pc):
        if isinstance(e, ast.Constant):
            if isinstance(e.value, str):
                yield pc, SStr(sv(e.value), sv(e.value.lower()))
            else:
                yield pc, e.value
            return
        if isinstance(e, ast.Name):
            if e.id in env:
                yield pc, env[e.id]
                return
            raise NotEncoded("name %s" % e.id)
        if isinstance(e, ast.Tuple):
            def rec(i, p, acc):
                if i == len(e.elts):
                    yield p, tuple(acc)
                    return
                for p2, v in self.ev(e.elts[i], env, p):
                    yield from rec(i + 1, p2, acc + [v])
            yield from rec(0, pc, [])
            return
        if isinstance(e, ast.List):
            def rec(i, p, acc):
                if i == len(e.elts):
                    yield p, SList(items=list(acc))
                    return
                for p2, v in self.ev(e.elts[i], env, p):
                    yield from rec(i + 1, p2, acc + [v])
            yield from rec(0, pc, [])
            return
        if isinstance(e, ast.BoolOp):
            def rec(i, p, acc):
                if i == len(e.values):
                    yield p, (z3.And(*acc) if isinstance(e.op, ast.And) else z3.Or(*acc))
                    return
                for p2, v in self.ev(e.values[i], env, p):
                    yield from rec(i + 1, p2, acc + [self.truth(v)])
            yield from rec(0, pc, [])
            return
        if isinstance(e, ast.UnaryOp) and isinstance(e.op, ast.Not):
            for p2, v in self.ev(e.operand, env, pc):
                yield p2, z3.Not(self.truth(v))
            return
        if isinstance(e, ast.IfExp):
            for p2, c in self.ev(e.test, env, pc):
                c = z3.simplify(self.truth(c))
                for sub, cond in ((e.body, c), (e.orelse, z3.Not(c))):
                    cc = z3.simplify(cond)
                    if z3.is_false(cc):
                        continue
                    p3 = p2 if z3.is_true(cc) else p2 + [cc]
                    if not self.feasible(p3):
                        continue
                    yield from self.ev(sub, env, p3)
            return
        if isinstance(e, ast.Compare) and len(e.ops) == 1:
            for p2, a in self.ev(e.left, env, pc):
                for p3, b in self.ev(e.comparators[0], env, p2):
                    yield p3, self.compare(e.ops[0], a, b, e)
            return
        if isinstance(e, ast.Subscript):
            for p2, base in self.ev(e.value, env, pc):
                yield from self.subscript(base, e.slice, p2)
            return
        if isinstance(e, ast.Call):
            yield from self.call(e, env, pc)
            return
        if isinstance(e, ast.Attribute):
            # module attributes used as class references: duckdb.DataError ...
            if isinstance(e.value, ast.Name) and e.value.id == "duckdb":
                yield pc, ("class", e.attr)
                return
        raise NotEncoded("expression %s" % ast.dump(e)[:80])

    def compare(self, op, a, b, node):
        if isinstance(op, (ast.In, ast.NotIn)):
            if isinstance(a, SStr) and isinstance(b, SStr):
                if b.parts is not None and z3.is_string_value(a.t):
                    r = contains_structured(b.parts, a.t.as_string())
                else:
                    r = z3.Contains(b.t, a.t)
                return z3.Not(r) if isinstance(op, ast.NotIn) else r
            raise NotEncoded("in on %s" % type(b).__name__)
        if isinstance(op, (ast.GtE, ast.Gt, ast.Eq, ast.NotEq, ast.Lt, ast.LtE)) and isinstance(a, tuple) and a and a[0] == "len" and isinstance(b, int):
            lst = a[1]
            need = {ast.GtE: b, ast.Gt: b + 1}.get(type(op))
            if need is None:
                raise NotEncoded("len comparison")
            return self.has_pieces(lst, need)
        if isinstance(op, (ast.Eq, ast.NotEq)) and isinstance(a, SStr) and isinstance(b, SStr):
            r = a.t == b.t
            return z3.Not(r) if isinstance(op, ast.NotEq) else r
        if isinstance(op, (ast.Is, ast.IsNot)) and (a is None or b is None):
            other = b if a is None else a
            if isinstance(other, SMatch):
                r = z3.Not(other.found)
                return z3.Not(r) if isinstance(op, ast.IsNot) else r
            if isinstance(other, tuple) and other and other[0] == "error":
                return z3.BoolVal(isinstance(op, ast.IsNot))
            if isinstance(other, tuple) and other and other[0] == "vtl":
                return z3.BoolVal(isinstance(op, ast.IsNot))
            if isinstance(op, ast.IsNot) and isinstance(a, tuple) and isinstance(b, tuple):
                return z3.BoolVal(a is not b)
        raise NotEncoded("comparison %s" % ast.dump(node)[:80])

    # ---- lazily split lists
    def occ(self, s, sep, k):
        """(exists Bool, start position Int) of the k-th (1-based) occurrence of sep in s, scanning left to right without overlap"""
        pos = z3.IntVal(0)
        ok = z3.BoolVal(True)
        p = None
        for _ in range(k):
            p = z3.IndexOf(s, sep, pos)
            ok = z3.And(ok, p >= 0)
            pos = p + z3.Length(sep)
        return ok, p

    def has_pieces(self, lst, n):
        if lst.items is not None:
            return z3.BoolVal(len(lst.items) >= n)
        if n <= 1:
            return z3.BoolVal(True)
        if lst.mode != "all" and n > 2:
            return z3.BoolVal(False)
        st = self._count_structured(lst, n - 1)
        if st is not None:
            return st
        return self.occ(lst.s.t, lst.sep.t, n - 1)[0]

    def _count_structured(self, lst, k):
        """'at least k separators' for prefix + v + suffix and a one-character literal separator: a formula over v alone"""
        if lst.s.parts is None or not z3.is_string_value(lst.sep.t):
            return None
        sp = lst.sep.t.as_string()
        if len(sp) != 1:
            return None
        pre, v, suf = lst.s.parts
        fixed = pre.count(sp) + suf.count(sp)
        if fixed >= k:
            return z3.BoolVal(True)
        need = k - fixed
        return self.occ(v, lst.sep.t, need)[0]

    def piece(self, lst, k):
        """-> (exists Bool, SStr) of piece k (0-based, k >= 0) of a lazily split string"""
        s, sep = lst.s.t, lst.sep.t
        L = z3.Length(sep)
        if lst.mode == "rsplit1":
            last = z3.LastIndexOf(s, sep)
            if k == 0:
                return z3.BoolVal(True), SStr(z3.If(last >= 0, z3.SubString(s, 0, last), s))
            if k == 1:
                return last >= 0, SStr(z3.SubString(s, last + L, z3.Length(s)))
            return z3.BoolVal(False), SStr(sv(""))
        if k == 0:
            first = z3.IndexOf(s, sep, 0)
            return z3.BoolVal(True), SStr(z3.If(first >= 0, z3.SubString(s, 0, first), s))
        ok, p = self.occ(s, sep, k)
        start = p + L
        if lst.mode == "split1":
            if k > 1:
                return z3.BoolVal(False), SStr(sv(""))
            return ok, SStr(z3.SubString(s, start, z3.Length(s)))
        nxt = z3.IndexOf(s, sep, start)
        return ok, SStr(z3.If(nxt >= 0, z3.SubString(s, start, nxt - start), z3.SubString(s, start, z3.Length(s))))

    def subscript(self, base, sl, pc):
        if isinstance(sl, ast.Slice):
            if isinstance(base, SStr) and sl.lower is None and isinstance(sl.upper, ast.Constant) and sl.step is None:
                yield pc, SStr(z3.SubString(base.t, 0, sl.upper.value))
                return
            raise NotEncoded("slice")
        if isinstance(sl, ast.UnaryOp) and isinstance(sl.op, ast.USub) and isinstance(sl.operand, ast.Constant):
            idx = -sl.operand.value
        elif isinstance(sl, ast.Constant) and isinstance(sl.value, int):
            idx = sl.value
        else:
            raise NotEncoded("subscript index")
        if isinstance(base, tuple) and base and base[0] not in ("len", "error", "class", "vtl"):
            yield pc, base[idx]
            return
        if not isinstance(base, SList):
            raise NotEncoded("subscript of %s" % type(base).__name__)
        if base.items is not None:
            if -len(base.items) <= idx < len(base.items):
                yield pc, base.items[idx]
            else:
                self.events.append(("IndexError", list(pc), "literal list index %d" % idx))
            return
        if idx == -1:
            s, sep = base.s.t, base.sep.t
            if base.mode == "split1":
                first = z3.IndexOf(s, sep, 0)
                yield pc, SStr(z3.If(first >= 0, z3.SubString(s, first + z3.Length(sep), z3.Length(s)), s))
            else:
                last = z3.LastIndexOf(s, sep)
                yield pc, SStr(z3.If(last >= 0, z3.SubString(s, last + z3.Length(sep), z3.Length(s)), s))
            return
        if idx < 0:
            raise NotEncoded("negative index %d" % idx)
        if idx == 0 and base.s.parts is not None and z3.is_string_value(base.sep.t) and self.alphabet is not None and base.mode in ("all", "split1"):
            sp = base.sep.t.as_string()
            pre, v, suf = base.s.parts
            if sp and not any(ch in self.alphabet for ch in sp):
                # the separator cannot occur inside (or straddle) the symbolic part: the first piece keeps the prefix + v + suffix shape
                if sp in pre:
                    c = pre[:pre.index(sp)]
                    yield pc, SStr(sv(c), sv(c.lower()))
                elif sp in suf:
                    s2 = suf[:suf.index(sp)]
                    lp = base.s.low_parts
                    yield pc, SStr(z3.Concat(sv(pre), v, sv(s2)), z3.Concat(sv(pre.lower()), v, sv(s2.lower())), (pre, v, s2), (pre.lower(), v, s2.lower()))
                else:
                    yield pc, base.s
                return
        ok, val = self.piece(base, idx)
        okc = z3.simplify(ok)
        if not z3.is_true(okc):
            self.events.append(("IndexError", list(pc) + [z3.Not(okc)], "piece %d of split(%s)" % (idx, base.sep.t)))
            pc = pc + [okc]
            if not self.feasible(pc):
                return
        yield pc, val

    # ---- calls
    def call(self, e, env, pc):
        f = e.func
        if isinstance(f, ast.Name):
            if f.id == "str" and len(e.args) == 1:
                for p2, v in self.ev(e.args[0], env, pc):
                    if isinstance(v, tuple) and v and v[0] == "error":
                        yield p2, self.msg
                    elif isinstance(v, SStr):
                        yield p2, v
                    else:
                        raise NotEncoded("str() of %r" % (v,))
                return
            if f.id == "len" and len(e.args) == 1:
                for p2, v in self.ev(e.args[0], env, pc):
                    if isinstance(v, SList):
                        yield p2, ("len", v)
                    else:
                        raise NotEncoded("len of %s" % type(v).__name__)
                return
            if f.id == "isinstance" and len(e.args) == 2:
                for p2, v in self.ev(e.args[0], env, pc):
                    for p3, c in self.ev(e.args[1], env, p2):
                        cl = [c] if (isinstance(c, tuple) and c and c[0] == "class") else list(c)
                        if isinstance(v, tuple) and v and v[0] == "error":
                            yield p3, z3.BoolVal(any(x[1] in self.error_classes for x in cl))
                        else:
                            raise NotEncoded("isinstance subject")
                return
            if f.id in ("RunTimeError", "SemanticError"):
                yield from self.construct(f.id, e, env, pc)
                return
            if hasattr(self.module, f.id) and inspect.isfunction(getattr(self.module, f.id)):
                yield from self.inline(f.id, e, env, pc)
                return
            raise NotEncoded("call of %s" % f.id)
        if isinstance(f, ast.Attribute):
            if isinstance(f.value, ast.Name) and f.value.id == "re" and f.attr == "search":
                pat = e.args[0]
                if not (isinstance(pat, ast.Constant) and isinstance(pat.value, str)):
                    raise NotEncoded("re.search pattern")
                for p2, subj in self.ev(e.args[1], env, pc):
                    import re as _re
                    lit = _re.split(r"\(|\\d", pat.value)[0]        # the literal head of the pattern: a match needs it
                    found = self.fresh("rx", z3.BoolSort())
                    self.assume.append(z3.Implies(found, z3.Contains(subj.t, sv(lit))))
                    yield p2, SMatch(found)
                return
            for p2, base in self.ev(f.value, env, pc):
                if isinstance(base, SMatch) and f.attr == "group":
                    nf = z3.simplify(z3.Not(base.found))
                    if self.feasible(p2 + [nf]):
                        self.events.append(("AttributeError", list(p2) + [nf], "m.group() with m None"))
                    yield p2 + [base.found], SStr(self.fresh("grp"))
                    continue
                if not isinstance(base, SStr):
                    raise NotEncoded("method %s of %s" % (f.attr, type(base).__name__))
                if f.attr == "lower" and not e.args:
                    yield p2, SStr(base.low, base.low, base.low_parts, base.low_parts)
                elif f.attr == "strip" and not e.args:
                    r = self.fresh("strip")
                    self.assume.append(z3.Contains(base.t, r))
                    # stripping removes nothing but blanks: if the separator-bearing tests matter they see the same non-blank content
                    yield p2, SStr(r)
                elif f.attr in ("split", "rsplit"):
                    argv = []

                    def rec(i, p, acc):
                        if i == len(e.args):
                            yield p, acc
                            return
                        for p3, v in self.ev(e.args[i], env, p):
                            yield from rec(i + 1, p3, acc + [v])
                    for p3, argv in rec(0, p2, []):
                        if not argv or not isinstance(argv[0], SStr):
                            raise NotEncoded("split without separator")
                        if len(argv) == 1 and f.attr == "split":
                            mode = "all"
                        elif len(argv) == 2 and argv[1] == 1:
                            mode = "split1" if f.attr == "split" else "rsplit1"
                        else:
                            raise NotEncoded("split arguments")
                        yield p3, SList(base, argv[0], mode)
                else:
                    raise NotEncoded("str method %s" % f.attr)
            return
        raise NotEncoded("call shape")

    def inline(self, name, e, env, pc):
        fn = self.func_ast(name)
        params = [a.arg for a in fn.args.args]

        def rec(i, p, acc):
            if i == len(e.args):
                yield p, acc
                return
            for p2, v in self.ev(e.args[i], env, p):
                yield from rec(i + 1, p2, acc + [v])
        for p2, argv in rec(0, pc, []):
            out = []
            self.block(fn.body, dict(zip(params, argv)), p2, lambda p, v: out.append((p, v)))
            for p3, v in out:
                yield p3, v

    def construct(self, cls, e, env, pc):
        from vtlengine.Exceptions.messages import centralised_messages
        import string
        if not e.args or not isinstance(e.args[0], ast.Constant):
            raise NotEncoded("error code not constant")
        code = e.args[0].value
        kws = [k.arg for k in e.keywords]

        def rec(i, p):
            if i == len(e.keywords):
                yield p
                return
            for p2, _ in self.ev(e.keywords[i].value, env, p):
                yield from rec(i + 1, p2)
        for p2 in rec(0, pc):
            if code not in centralised_messages:
                self.events.append(("KeyError", list(p2), "error code %s is not in the catalogue" % code))
                continue
            need = {f_[1] for f_ in string.Formatter().parse(centralised_messages[code]["message"]) if f_[1]}
            miss = need - set(kws)
            if miss:
                self.events.append(("KeyError", list(p2), "placeholder(s) %s of %s not supplied" % (sorted(miss), code)))
                continue
            yield p2, ("vtl", cls, code)
