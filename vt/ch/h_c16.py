"""C16 harness: the real configured_connection / create_configured_connection /
configure_duckdb_connection and the `with configured_connection() as conn: execute_queries(...)`
block of run(), with the environment replaced by recording stubs.  A symbolic integer k selects
which external call raises (the crash point is a solver variable; k beyond the last call = no
fault).  Oracle over the event log: every session directory that was created is removed, every
connection that was opened is closed, nothing touches a connection after it is closed - on the
failing path as well as on the fault-free path."""
import contextlib

from vt import boot

boot.boot()
import vtlengine.duckdb_transpiler.Config.config as CFG  # noqa: E402
import vtlengine.duckdb_transpiler.io._execution as EX  # noqa: E402
from vtlengine.AST.DAG._models import DatasetSchedule  # noqa: E402


class Fault(Exception):
    """a failure that is NOT a database error (a Python-level error of the configuration code, e.g. an invalid setting)"""


class DuckErr(Exception):
    """stands for duckdb.Error (the stub module's Error class)"""


class World:
    def __init__(self, k, kind=0):
        self.k = k
        self.kind = kind
        self.n = 0
        self.log = []

    def call(self, what):
        """an external call site: the k-th one fails"""
        i = self.n
        self.n += 1
        if i == self.k:
            self.log.append(("fault", what))
            raise (DuckErr(what) if self.kind == 0 else Fault(what))
        self.log.append(what if isinstance(what, tuple) else (what,))


class FakeConn:
    def __init__(self, w, db):
        self.w, self.db, self.closed = w, db, False

    def execute(self, sql, *a, **k):
        if self.closed:
            self.w.log.append(("use-after-close",))
        self.w.call(("execute", sql[:12]))
        return self

    def create_function(self, *a, **k):
        self.w.call(("create_function",))

    def close(self):
        # close() itself is not a fault point (DuckDB close does not raise); it is recorded
        self.closed = True
        self.w.log.append(("close", self.db))


class FakePath:
    def __init__(self, p, w=None):
        self.p = str(p)
        self.w = w or FakePath._w

    def __truediv__(self, o):
        return FakePath(self.p + "/" + str(o), self.w)

    def mkdir(self, parents=False, exist_ok=False):
        self.w.call(("mkdir", self.p))

    def __str__(self):
        return self.p


def run_once(k, in_memory, n_statements, kind=0):
    w = World(k, kind)
    FakePath._w = w
    saved = {}

    def patch(mod, name, val):
        saved[(mod, name)] = getattr(mod, name)
        setattr(mod, name, val)

    class FakeDuck:
        Error = DuckErr

        @staticmethod
        def connect(db, config=None):
            w.call(("connect", db))
            return FakeConn(w, db)

    class FakeShutil:
        @staticmethod
        def rmtree(p, ignore_errors=False):
            w.log.append(("rmtree", str(p)))

    class FakeUuid:
        class _U:
            hex = "abc"

        @staticmethod
        def uuid4():
            return FakeUuid._U

    patch(CFG, "duckdb", FakeDuck)
    patch(CFG, "Path", FakePath)
    patch(CFG, "shutil", FakeShutil)
    patch(CFG, "uuid", FakeUuid)
    patch(CFG, "_temp_directory", lambda: "/T")
    patch(CFG, "_use_in_memory_db", lambda: in_memory)
    patch(CFG, "_threads", lambda: 1)
    patch(CFG, "_max_temp_directory_size", lambda: "")
    patch(CFG, "_duckdb_memory_limit", lambda: None)
    patch(CFG, "register_regex_functions", lambda conn: conn.create_function("f"))
    patch(CFG, "set_decimal_config", lambda: w.call(("set_decimal_config",)))
    patch(EX, "load_datapoints_duckdb", lambda **kw: w.call(("load", kw.get("dataset_name"))))
    patch(EX, "register_dataframes", lambda conn, dfs, ids, **kw: w.call(("load", list(dfs)[0])))
    patch(EX, "fetch_result", lambda **kw: (w.call(("fetch", kw.get("result_name"))), "R")[1])
    patch(EX, "initialize_time_types", lambda conn, sql_fragments=None: w.call(("init_macros",)))
    failed = False
    try:
        names = ["O%d" % i for i in range(n_statements)]
        sched = DatasetSchedule(insertion={1: ["G"]}, deletion={n_statements: ["G"] + names[:-1]}, global_inputs=["G"],
                                persistent=[names[-1]], all_outputs=names)

        class DS:
            components = {}
        with CFG.configured_connection() as conn:
            EX.execute_queries(conn=conn, queries=[(n, "SELECT 1", n == names[-1]) for n in names], ds_analysis=sched, path_dict=None,
                               dataframe_dict={"G": 1}, input_datasets={"G": DS()}, output_datasets={}, output_scalars={},
                               output_folder=None, return_only_persistent=True)
    except (Fault, DuckErr):
        failed = True
    finally:
        for (mod, name), v in saved.items():
            setattr(mod, name, v)
    return w, failed


def leaks(w):
    """-> list of leaked resources according to the event log"""
    out = []
    made = [e[1] for e in w.log if e[0] == "mkdir" and e[1].startswith("/T/duckdb_tmp_")]
    removed = [e[1] for e in w.log if e[0] == "rmtree"]
    for d in made:
        if d not in removed:
            out.append("session directory %s not removed" % d)
    opened = [e[1] for e in w.log if e[0] == "connect"]
    closed = [e[1] for e in w.log if e[0] == "close"]
    if len(closed) < len(opened):
        out.append("connection not closed")
    if ("use-after-close",) in w.log:
        out.append("connection used after close")
    return out


def check(k, in_memory, n_statements, kind=0):
    """kind 0: the failing call raises the database's error class; kind 1: it raises another Python exception"""
    w, failed = run_once(k, in_memory, n_statements, 0 if kind == 0 else 1)
    if k >= 0 and k < w.n and not failed:
        return False    # an injected fault was swallowed: run() must raise
    return not leaks(w)


def n_sites(in_memory, n_statements):
    w, _ = run_once(-1, in_memory, n_statements)
    return w.n, w.log


def site_of(k, in_memory, n_statements):
    w, _ = run_once(k, in_memory, n_statements)
    f = [e for e in w.log if e[0] == "fault"]
    return f[0][1] if f else None


def warm_light():
    for im in (True, False):
        check(-1, im, 2)
        check(3, im, 2)
        check(3, im, 2, 1)


if __name__ == "__main__":
    n, log = n_sites(True, 2)
    print(n, log)
    for k in range(-1, n + 1):
        w, failed = run_once(k, False, 2)
        print(k, failed, site_of(k, False, 2), leaks(w))
