"""Verification framework for vtlengine (solver-based checking of the real code)."""
