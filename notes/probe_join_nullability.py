import sys; sys.path.insert(0, "/verif/notes")
import probe_stubparser as stubparser; stubparser.install()
import copy, pandas as pd
import vtlengine.API as API
import vtlengine.AST as A
from vtlengine.AST.DAG import DAGAnalyzer
P = dict(line_start=1, column_start=0, line_stop=1, column_stop=0)
def V(n): return A.VarID(value=n, **P)
REG = {}
def fake_create_ast(text):
    ast = copy.deepcopy(REG[text.strip()]); DAGAnalyzer.create_dag(ast); return ast
API.create_ast = fake_create_ast
def comp(n,t,r,nullable=None): return {"name":n,"type":t,"role":r,"nullable": (r!="Identifier") if nullable is None else nullable}
ds = {"datasets":[{"name":"DS_1","DataStructure":[comp("Id_1","Integer","Identifier"),comp("Me_1","Integer","Measure",False)]},
                  {"name":"DS_2","DataStructure":[comp("Id_1","Integer","Identifier"),comp("Me_2","Integer","Measure",False)]}]}
dp = {"DS_1": pd.DataFrame({"Id_1":[1,2],"Me_1":[1,1]}), "DS_2": pd.DataFrame({"Id_1":[2,3],"Me_2":[5,5]})}
for op in ("left_join","full_join"):
    REG["@@j"] = A.Start(children=[A.PersistentAssignment(left=V("DS_r"), op="<-", right=A.JoinOp(op=op, clauses=[V("DS_1"),V("DS_2")], using=None, **P), **P)], **P)
    r = API.run("@@j", ds, dp)["DS_r"]
    print(op, {n:(c.data_type.__name__, c.role.value, c.nullable) for n,c in r.components.items()}); print(r.data)
# aggregation of empty/ all-null: sum nullable?
ds2 = {"datasets":[{"name":"DS_1","DataStructure":[comp("Id_1","Integer","Identifier"),comp("Id_2","Integer","Identifier"),comp("Me_1","Integer","Measure",False)]}]}
REG["@@a"] = A.Start(children=[A.PersistentAssignment(left=V("DS_r"), op="<-", right=A.Aggregation(op="count", operand=V("DS_1"), grouping_op="group by", grouping=[A.Identifier(value="Id_1", kind="ComponentID", **P)], **P), **P)], **P)
r = API.run("@@a", ds2, {"DS_1": pd.DataFrame({"Id_1":[1,1],"Id_2":[1,2],"Me_1":[1,2]})})["DS_r"]
print({n:(c.data_type.__name__, c.role.value, c.nullable) for n,c in r.components.items()}); print(r.data, r.data.dtypes.to_dict())
