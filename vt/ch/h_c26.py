"""C26 harness: every raise site of a coded VTL exception, constructed through the REAL constructor.

scan() walks /repo/src with Python's ast (regenerated every run): for each call of
SemanticError / RunTimeError / DataLoadError / InputValidationException it resolves the code
(constant, or an f-string / conditional over constants -> every alternative) and the keyword names.
site_ok(i, ...) builds the exception with symbolic argument values and a symbolic
`Exceptions.dataset_output` (the name of the statement being analysed, user controlled)."""
import ast
import os
import string

from vt import boot

boot.boot()
import vtlengine.Exceptions as E  # noqa: E402
from vtlengine.Exceptions.messages import centralised_messages  # noqa: E402

REPO = os.environ.get("VT_REPO", "/repo")
CLASSES = {"SemanticError": E.SemanticError, "RunTimeError": E.RunTimeError,
           "DataLoadError": E.DataLoadError, "InputValidationException": E.InputValidationException}
ALPH = ["", "D", "{", "}", "0", "{}"]


def _const_alternatives(node, consts=None):
    """All constant strings an expression can evaluate to (None = unresolved)."""
    if isinstance(node, ast.Constant) and isinstance(node.value, str):
        return [node.value]
    if isinstance(node, ast.Constant) and node.value is None:
        return []  # a None alternative is guarded by `is not None` at the raise sites that use it
    if isinstance(node, ast.Name) and consts is not None:
        c = consts.get(node.id)
        if c and len(c) == 1 and c[0] is not None:
            return c[0]
        return None
    if isinstance(node, ast.IfExp):
        a, b = _const_alternatives(node.body, consts), _const_alternatives(node.orelse, consts)
        return None if a is None or b is None else a + b
    if isinstance(node, ast.JoinedStr):
        outs = [""]
        for v in node.values:
            if isinstance(v, ast.Constant):
                alts = [str(v.value)]
            elif isinstance(v, ast.FormattedValue):
                alts = _const_alternatives(v.value, consts)
                if alts is None and isinstance(v.value, ast.IfExp):
                    alts = None
                if alts is None:
                    return None
            else:
                return None
            outs = [o + a for o in outs for a in alts]
        return outs
    if isinstance(node, ast.Constant) and isinstance(node.value, int):
        return [str(node.value)]
    return None


def scan():
    sites = []
    root = os.path.join(REPO, "src", "vtlengine")
    for dp, _, fns in os.walk(root):
        for fn in sorted(fns):
            if not fn.endswith(".py"):
                continue
            path = os.path.join(dp, fn)
            try:
                tree = ast.parse(open(path, encoding="utf-8").read())
            except SyntaxError:
                continue
            # simple constant propagation for names assigned once to a constant in the same function/module
            consts = {}
            for n in ast.walk(tree):
                if isinstance(n, ast.Assign) and len(n.targets) == 1 and isinstance(n.targets[0], ast.Name):
                    alts = _const_alternatives(n.value)
                    consts.setdefault(n.targets[0].id, []).append(alts)
            for n in ast.walk(tree):
                if not isinstance(n, ast.Call):
                    continue
                f = n.func
                name = f.id if isinstance(f, ast.Name) else (f.attr if isinstance(f, ast.Attribute) else None)
                if name not in CLASSES:
                    continue
                code_node = None
                kw = []
                star = False
                for k in n.keywords:
                    if k.arg is None:
                        star = True
                    elif k.arg == "code":
                        code_node = k.value
                    elif k.arg not in ("comp_code", "lino", "colno", "message"):
                        kw.append(k.arg)
                has_message_only = False
                if name == "InputValidationException":
                    if code_node is None:
                        has_message_only = True
                elif code_node is None and n.args:
                    code_node = n.args[0]
                if has_message_only:
                    continue
                codes = _const_alternatives(code_node, consts) if code_node is not None else None
                if codes is None and isinstance(code_node, ast.Name):
                    c = consts.get(code_node.id)
                    if c and len(c) == 1 and c[0] is not None:
                        codes = c[0]
                sites.append(dict(file=os.path.relpath(path, REPO), line=n.lineno, cls=name, codes=codes,
                                  kwargs=sorted(kw), star=star))
    sites.sort(key=lambda s: (s["file"], s["line"]))
    return sites


SITES = scan()
RESOLVED = [s for s in SITES if s["codes"] is not None]
FLAT = [(s, c) for s in RESOLVED for c in s["codes"]]


def placeholders(code):
    return sorted({name.split(".")[0].split("[")[0] for _, name, _, _ in string.Formatter().parse(centralised_messages[code]["message"]) if name})


def static_problem(s, code):
    if code not in centralised_messages:
        return "code %s not in the catalogue" % code
    if s["star"]:
        return None
    missing = [p for p in placeholders(code) if p not in s["kwargs"]]
    if missing:
        return "placeholders %s of %s not supplied" % (missing, code)
    return None


def pick(i, n):
    for k in range(n):
        if i == k:
            return k
    raise IndexError(i)


def site_ok(i, sv, iv, d1, d2):
    """Construct site i's exception with symbolic values: strings get `sv`, every other kwarg the int `iv`;
    Exceptions.dataset_output = ALPH[d1] + ALPH[d2] ('' -> None)."""
    s, code = FLAT[pick(i, len(FLAT))]
    if static_problem(s, code) is not None:
        return True  # reported by the static obligation, not here
    names = s["kwargs"] if not s["star"] else placeholders(code)
    kwargs = {}
    for j, k in enumerate(names):
        kwargs[k] = sv if j % 2 == 0 else iv
    d = ALPH[pick(d1, len(ALPH))] + ALPH[pick(d2, len(ALPH))]
    old = E.dataset_output
    E.dataset_output = d or None
    try:
        exc = CLASSES[s["cls"]](code=code, **kwargs) if s["cls"] == "InputValidationException" else CLASSES[s["cls"]](code, **kwargs)
        msg = str(exc)
        ok = isinstance(exc, E.VTLEngineException) and len(exc.args) >= 1 and isinstance(msg, str)
        if ok and d:
            # the output-dataset name is reported verbatim, never re-interpreted as a format field
            ok = (d in exc.args[0]) if s["cls"] != "InputValidationException" else True
        return ok
    except Exception:
        return False
    finally:
        E.dataset_output = old


def warm():
    bad = []
    for i in range(len(FLAT)):
        for d1, d2 in ((0, 0), (1, 0), (2, 3)):
            try:
                if not site_ok(i, "x", 3, d1, d2):
                    bad.append((i, d1, d2))
            except Exception as e:
                bad.append((i, d1, d2, type(e).__name__))
    return bad


if __name__ == "__main__":
    print(len(SITES), "sites;", len(RESOLVED), "resolved;", len(FLAT), "site x code pairs")
    print("unresolved:", [(s["file"], s["line"]) for s in SITES if s["codes"] is None])
    print("static problems:", [(s["file"], s["line"], c, static_problem(s, c)) for s, c in FLAT if static_problem(s, c)])
    print("warm bad:", warm()[:10])

SV = ["x", "{", "}{", ""]
REP = {}
for _i, (_s, _c) in enumerate(FLAT):
    if static_problem(_s, _c) is None:
        REP.setdefault(_s["cls"], _i)
REPS = [REP[k] for k in sorted(REP)]


def shard_ok(lo, hi, i, svi, iv, d):
    """sites lo..hi-1, argument string class svi, int value iv in {0,-1}, dataset_output in {None,'D'}"""
    return site_ok(lo + pick(i, hi - lo), SV[pick(svi, len(SV))], -pick(iv, 2), pick(d, 2), 0)


def class_ok(c, svi, d1, d2):
    """one representative site per exception class, every dataset_output over ALPH x ALPH"""
    return site_ok(REPS[pick(c, len(REPS))], SV[pick(svi, len(SV))], 7, d1, d2)
