"""C33 - results depend only on the set of input datapoints (self-composition under two physical row orders)."""
from vt import templates
from vt.props import _engine_a
from vt.sqlsmt import driver


def run(rep, tier):
    _engine_a.run(rep, tier, templates.c33(tier), fn=driver.run_order,
                  functions=["every transpiler visitor exercised by the templates; physical row order enters the encoding through ROW_NUMBER() OVER (), unordered list() and ties in ORDER BY"],
                  bounds={"quick": "each template evaluated under two symbolic physical orders (all permutations of <=3 rows per input, as distinct order indices) of the same symbolic datapoints; "
                                   "query: the two results differ as sets",
                          "thorough": "thorough template sets"},
                  outside=["CSV / Parquet readers and DataFrame column order (DuckDB / pandas internals)", "inputs large enough for parallel scans", "ties in analytic orderings and current_date (excluded by the statement)"])
    rep.extra["rule"] = ("one obligation = one script template evaluated twice (self-composition) over the same symbolic datapoints in two symbolic physical orders; unsat = the result set cannot differ; "
                         "sat models are replayed through run() with both row orders")


def replay(path):
    print("C33 replays re-run the template: use ./check C33")
    return 2
