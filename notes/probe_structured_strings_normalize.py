"""Probe: structured (char-array) strings + regex NFA on the real vtl_period_normalize macro and TIME_PERIOD_PATTERN."""
import sys, re, time, z3, sqlglot
from sqlglot import exp
sys.path.insert(0, "/verif/notes")
import probe_stubparser as stubparser; stubparser.install()
from vtlengine.duckdb_transpiler.sql import _macro_graph
from vtlengine.duckdb_transpiler.io._validation import TIME_PERIOD_PATTERN

# ---------- values ----------
class S:   # string: list of alternatives (guard, [char z3 Int ...]) ; null flag ; err flag
    def __init__(s, alts, null=None, err=None):
        s.alts, s.null, s.err = alts, (z3.BoolVal(False) if null is None else null), (z3.BoolVal(False) if err is None else err)
class I:
    def __init__(s, v, null=None, err=None):
        s.v, s.null, s.err = v, (z3.BoolVal(False) if null is None else null), (z3.BoolVal(False) if err is None else err)
class B(I): pass
def lit(txt): return S([(z3.BoolVal(True), [z3.IntVal(ord(c)) for c in txt])])
def OR(*a): a = [x for x in a]; return z3.Or(*a) if a else z3.BoolVal(False)
def AND(*a): return z3.And(*a) if a else z3.BoolVal(True)
def isdigit(c): return z3.And(c >= 48, c <= 57)

def substr(s, start, ln=None):
    out = []
    for g, ch in s.alts:
        a = max(start - 1, 0)
        out.append((g, ch[a:] if ln is None else ch[a:a + ln]))
    return S(out, s.null, s.err)
def length(s):
    v = z3.IntVal(0)
    for g, ch in s.alts: v = z3.If(g, len(ch), v)
    return I(v, s.null, s.err)
def upper(s): return S([(g, [z3.If(z3.And(c >= 97, c <= 122), c - 32, c) for c in ch]) for g, ch in s.alts], s.null, s.err)
def concat(a, b): return S([(z3.And(g1, g2), c1 + c2) for g1, c1 in a.alts for g2, c2 in b.alts], z3.Or(a.null, b.null), z3.Or(a.err, b.err))
def seq(a, b):   # string equality
    cs = []
    for g1, c1 in a.alts:
        for g2, c2 in b.alts:
            if len(c1) == len(c2): cs.append(AND(g1, g2, *[x == y for x, y in zip(c1, c2)]))
    return B(OR(*cs), z3.Or(a.null, b.null), z3.Or(a.err, b.err))
def scmp(a, b, op):   # lexicographic compare, only 1-char strings needed
    cs = []
    for g1, c1 in a.alts:
        for g2, c2 in b.alts:
            if len(c1) == 1 and len(c2) == 1: cs.append(AND(g1, g2, op(c1[0], c2[0])))
            elif len(c1) == 0 and len(c2) == 1: cs.append(AND(g1, g2, z3.BoolVal(op(0, 1))))   # '' < any
            else: raise NotImplementedError("cmp len")
    return B(OR(*cs), z3.Or(a.null, b.null), z3.Or(a.err, b.err))
def cast_int(s, try_=False):
    """model of DuckDB VARCHAR->INTEGER restricted to alphabet: [spaces] [-] digits+ [spaces] ; else error/NULL"""
    val = z3.IntVal(0); ok = z3.BoolVal(False)
    for g, ch in s.alts:
        n = len(ch)
        # enumerate (lead spaces, sign, digits span) concrete layouts
        for lead in range(n + 1):
            for sign in (0, 1):
                for trail in range(n - lead - sign + 1):
                    d = ch[lead + sign: n - trail]
                    if len(d) == 0 or len(d) > 9: continue
                    cond = AND(g, *[c == 32 for c in ch[:lead]], *([ch[lead] == 45] if sign else []), *[isdigit(c) for c in d], *[c == 32 for c in ch[n - trail:]])
                    v = z3.IntVal(0)
                    for c in d: v = v * 10 + (c - 48)
                    if sign: v = -v
                    val = z3.If(cond, v, val); ok = z3.Or(ok, cond)
    if try_: return I(val, z3.Or(s.null, z3.Not(ok)), s.err)
    return I(val, s.null, z3.Or(s.err, z3.And(z3.Not(s.null), z3.Not(ok))))
def int_to_str(i):
    alts = []
    v = i.v
    for nd in range(1, 5):   # non-negative up to 4 digits; negative 1..3 digits
        lo, hi = (0 if nd == 1 else 10 ** (nd - 1)), 10 ** nd - 1
        digs = [z3.IntVal(48) + (v / (10 ** k)) % 10 for k in reversed(range(nd))]
        alts.append((z3.And(v >= lo, v <= hi), digs))
        nv = -v
        digs = [z3.IntVal(45)] + [z3.IntVal(48) + (nv / (10 ** k)) % 10 for k in reversed(range(nd))]
        alts.append((z3.And(nv >= max(lo, 1), nv <= hi), digs))
    cover = OR(*[g for g, _ in alts])
    return S(alts, i.null, z3.Or(i.err, z3.And(z3.Not(i.null), z3.Not(cover))))   # err = outside modelled range
def lpad(s, w, padc=48):
    out = []
    for g, ch in s.alts:
        out.append((g, ch[:w] if len(ch) >= w else [z3.IntVal(padc)] * (w - len(ch)) + ch))
    return S(out, s.null, s.err)

# ---------- evaluator over sqlglot expressions ----------
def ev(e, env):
    if isinstance(e, exp.Paren): return ev(e.this, env)
    if isinstance(e, exp.Column): return env[e.name.lower()]
    if isinstance(e, exp.Literal): return lit(e.this) if e.is_string else I(z3.IntVal(int(e.this)))
    if isinstance(e, exp.Null): return S([(z3.BoolVal(True), [])], z3.BoolVal(True))
    if isinstance(e, exp.Is):
        a = ev(e.this, env); assert isinstance(e.expression, exp.Null); return B(a.null, None, a.err)
    if isinstance(e, exp.Length): return length(ev(e.this, env))
    if isinstance(e, exp.Upper): return upper(ev(e.this, env))
    if isinstance(e, exp.Substring):
        st = int(e.args["start"].this); ln = e.args.get("length")
        return substr(ev(e.this, env), st, int(ln.this) if ln is not None else None)
    if isinstance(e, exp.DPipe): return concat(ev(e.this, env), ev(e.expression, env))
    if isinstance(e, (exp.EQ, exp.NEQ)):
        a, b = ev(e.this, env), ev(e.expression, env)
        r = seq(a, b) if isinstance(a, S) else B(a.v == b.v, z3.Or(a.null, b.null), z3.Or(a.err, b.err))
        return r if isinstance(e, exp.EQ) else B(z3.Not(r.v), r.null, r.err)
    if isinstance(e, (exp.GTE, exp.LTE)):
        a, b = ev(e.this, env), ev(e.expression, env)
        opf = (lambda x, y: x >= y) if isinstance(e, exp.GTE) else (lambda x, y: x <= y)
        if isinstance(a, I) and not isinstance(a, S): return B(opf(a.v, b.v), z3.Or(a.null, b.null), z3.Or(a.err, b.err))
        return scmp(a, b, opf)
    if isinstance(e, exp.In):
        a = ev(e.this, env); rs = [seq(a, ev(x, env)) for x in e.expressions]
        return B(OR(*[r.v for r in rs]), a.null, a.err)
    if isinstance(e, (exp.And, exp.Or)):
        a, b = ev(e.this, env), ev(e.expression, env)
        if isinstance(e, exp.And):
            f = z3.Or(z3.And(z3.Not(a.null), z3.Not(a.v)), z3.And(z3.Not(b.null), z3.Not(b.v)))
            return B(z3.And(a.v, b.v), z3.And(z3.Not(f), z3.Or(a.null, b.null)), z3.Or(a.err, z3.And(b.err, z3.Or(a.null, a.v))))
        t = z3.Or(z3.And(z3.Not(a.null), a.v), z3.And(z3.Not(b.null), b.v))
        return B(z3.Or(a.v, b.v), z3.And(z3.Not(t), z3.Or(a.null, b.null)), z3.Or(a.err, z3.And(b.err, z3.Or(a.null, z3.Not(a.v)))))
    if isinstance(e, (exp.Cast, exp.TryCast)):
        a = ev(e.this, env); to = e.to.sql().upper()
        if to in ("INT", "INTEGER"): return cast_int(a, try_=isinstance(e, exp.TryCast)) if isinstance(a, S) else a
        if to in ("TEXT", "VARCHAR"): return int_to_str(a) if isinstance(a, I) else a
        raise NotImplementedError(to)
    if isinstance(e, exp.Pad): return lpad(ev(e.this, env), int(e.expression.this))
    if isinstance(e, exp.Anonymous) and e.name.upper() == "LPAD":
        return lpad(ev(e.expressions[0], env), int(e.expressions[1].this))
    if isinstance(e, exp.Case):
        # first matching WHEN; result must be S
        res = None
        default = ev(e.args["default"], env) if e.args.get("default") is not None else S([(z3.BoolVal(True), [])], z3.BoolVal(True))
        branches = [(ev(i.this, env), i.args["true"]) for i in e.args["ifs"]]
        alts = []; null = z3.BoolVal(False); err = z3.BoolVal(False); taken_before = z3.BoolVal(False)
        for cond, body in branches:
            c_true = z3.And(z3.Not(cond.null), cond.v)
            here = z3.And(z3.Not(taken_before), c_true)
            err = z3.Or(err, z3.And(z3.Not(taken_before), cond.err))
            try:
                r = ev(body, env)
            except NotImplementedError as ex:
                r = S([(z3.BoolVal(True), [])], None, z3.BoolVal(True)); r.unsupported = True   # branch not modelled -> error flag
            alts += [(z3.And(here, g), ch) for g, ch in r.alts]
            null = z3.Or(null, z3.And(here, r.null)); err = z3.Or(err, z3.And(here, r.err))
            taken_before = z3.Or(taken_before, c_true)
        alts += [(z3.And(z3.Not(taken_before), g), ch) for g, ch in default.alts]
        null = z3.Or(null, z3.And(z3.Not(taken_before), default.null)); err = z3.Or(err, z3.And(z3.Not(taken_before), default.err))
        return S(alts, null, err)
    raise NotImplementedError(type(e).__name__ + ": " + e.sql()[:60])

# ---------- regex -> NFA over a concrete-length char array ----------
import re._parser as sre
def rx_match(pattern, chars):
    """fullmatch-with-anchors semantics: pattern is alternation of ^...$ branches; returns z3 Bool"""
    tree = sre.parse(pattern)
    def m(items, pos_set):   # pos_set: dict pos -> cond ; returns dict pos -> cond after matching items sequentially
        for op, av in items:
            new = {}
            def add(p, c): new[p] = z3.Or(new[p], c) if p in new else c
            name = str(op)
            if name == "AT":
                for p, c in pos_set.items():
                    if str(av) == "AT_BEGINNING" and p == 0: add(p, c)
                    if str(av) == "AT_END" and p == len(chars): add(p, c)
            elif name in ("LITERAL", "IN", "NOT_LITERAL", "ANY"):
                for p, c in pos_set.items():
                    if p < len(chars): add(p + 1, z3.And(c, cls(op, av, chars[p])))
            elif name in ("MAX_REPEAT", "MIN_REPEAT"):
                lo, hi, sub = av
                cur = pos_set; acc = {}
                for k in range(0, min(hi, len(chars)) + 1):
                    if k >= lo:
                        for p, c in cur.items(): acc[p] = z3.Or(acc[p], c) if p in acc else c
                    cur = m(list(sub), cur)
                    if not cur: break
                new = acc
            elif name == "SUBPATTERN":
                new = m(list(av[3]), pos_set)
            elif name == "BRANCH":
                for br in av[1]:
                    r = m(list(br), pos_set)
                    for p, c in r.items(): add(p, c)
            else: raise NotImplementedError(name)
            pos_set = new
        return pos_set
    def cls(op, av, ch):
        name = str(op)
        if name == "LITERAL": return ch == av
        if name == "ANY": return ch != 10
        if name == "IN":
            ors = []
            for o, a in av:
                o = str(o)
                if o == "LITERAL": ors.append(ch == a)
                elif o == "RANGE": ors.append(z3.And(ch >= a[0], ch <= a[1]))
                elif o == "CATEGORY" and str(a) == "CATEGORY_DIGIT": ors.append(isdigit(ch))
                else: raise NotImplementedError(o + str(a))
            return z3.Or(*ors)
        raise NotImplementedError(name)
    end = m(list(tree), {0: z3.BoolVal(True)})
    return end.get(len(chars), z3.BoolVal(False))

# ---------- the probe ----------
g = _macro_graph()
macro_sql = g.statements["vtl_period_normalize"]
body = sqlglot.parse_one(macro_sql, dialect="duckdb").expression
ALPHA = [ord(c) for c in "0123456789ASQMWDasqmwd- "]
for L in (7, 8):
    chars = [z3.Int(f"c{i}") for i in range(L)]
    inp = S([(z3.BoolVal(True), chars)])
    t0 = time.time()
    out = ev(body, {"input": inp})
    # validation: UPPER(TRIM(out)) ~ pattern ; TRIM modelled only for no-space outputs -> require no spaces in output alt (else skip)
    acc = []
    for gd, ch in out.alts:
        up = [z3.If(z3.And(c >= 97, c <= 122), c - 32, c) for c in ch]
        nospace = AND(*[c != 32 for c in ch])
        acc.append(z3.And(gd, nospace, rx_match(TIME_PERIOD_PATTERN, up)))
    accepted = z3.And(z3.Not(out.err), z3.Not(out.null), OR(*acc))
    s = z3.Solver(); s.set("timeout", 120000)
    s.add(*[OR(*[c == a for a in ALPHA]) for c in chars])
    # "valid" for monthly hyphen form: if result is YYYY-Mdd then 1<=dd<=12 (oracle fragment)
    bad = []
    for gd, ch in out.alts:
        if len(ch) == 8:
            mm = (ch[6] - 48) * 10 + (ch[7] - 48)
            bad.append(z3.And(gd, ch[4] == 45, ch[5] == 77, z3.Or(mm < 1, mm > 12)))
    s.add(accepted, OR(*bad))
    r = s.check(); dt = time.time() - t0
    print("L", L, "alts", len(out.alts), r, round(dt, 2), "s")
    if r == z3.sat:
        m_ = s.model(); print("  input:", repr("".join(chr(m_.eval(c).as_long()) for c in chars)))
        for gd, ch in out.alts:
            if z3.is_true(m_.eval(gd, True)): print("  normalized:", repr("".join(chr(m_.eval(c, True).as_long()) for c in ch)))
