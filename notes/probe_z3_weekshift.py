import z3, time
# ISO weeks in year y: 53 iff Jan 1 is Thursday, or leap year and Jan 1 is Wednesday.
def fdiv(a,b): return a / b  # z3 Int div: floor for positive divisor
def is_leap(y): return z3.And(y % 4 == 0, z3.Or(y % 100 != 0, y % 400 == 0))
def days_before_year(y):  # days from 0001-01-01 to y-01-01
    y1 = y - 1
    return y1*365 + y1/4 - y1/100 + y1/400
def jan1_dow(y):  # 0=Monday
    return days_before_year(y) % 7   # 0001-01-01 was Monday
def weeks_in_year(y):
    d = jan1_dow(y)
    return z3.If(z3.Or(d == 3, z3.And(is_leap(y), d == 2)), 53, 52)
# SQL vtl_tp_shift for 'W' (floor division // and % in DuckDB: % is truncated remainder! careful)
def sql_floordiv(a, b): # DuckDB // is integer division truncating? model later; here b>0 const
    return z3.If(a >= 0, a / b, -((-a) / b))  # truncation toward zero
def sql_mod(a, b):
    return a - b * sql_floordiv(a, b)
def shift_sql(y, p, n, L):
    t = p + n
    dy = z3.If(t <= 0, sql_floordiv(t, L) - 1, sql_floordiv(t - 1, L))
    np_ = sql_mod(sql_mod(t - 1, L) + L, L) + 1
    return y + dy, np_
y, p, n = z3.Ints("y p n")
s = z3.Solver()
s.add(y >= 1900, y <= 2100, p >= 1, p <= weeks_in_year(y), n >= -60, n <= 60)
y2, p2 = shift_sql(y, p, n, 52)
y3, p3 = shift_sql(y2, p2, -n, 52)
# property: round trip
s.add(z3.Or(y3 != y, p3 != p))
t=time.time(); r = s.check(); print(r, time.time()-t)
if r == z3.sat: print(s.model())
