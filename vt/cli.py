import argparse
import importlib
import os
import sys
import traceback

from vt.report import Report


def main():
    ap = argparse.ArgumentParser()
    ap.add_argument("pid")
    ap.add_argument("--tier", default=os.environ.get("VERIF_TIER") or "quick")
    ap.add_argument("--replay", default=None)
    a = ap.parse_args()
    mod = importlib.import_module("vt.props." + a.pid)
    if a.replay:
        sys.exit(mod.replay(a.replay))
    rep = Report(a.pid, a.tier, seed=int(os.environ.get("VERIF_SEED") or 0))
    try:
        mod.run(rep, a.tier)
    except Exception:
        traceback.print_exc()
        rep.harness_error("driver crashed: see traceback")
    sys.exit(rep.finish())


if __name__ == "__main__":
    main()
