"""Evidence writer, known-findings matching and exit-code policy shared by all property drivers.

Exit codes of ./check:
  0  the property held on everything decided (each listed known finding that re-confirmed is
     printed as `KNOWN-FINDING: property=<id> <what>`)
  1  a violation that reproduces against the real code and is not listed in known_findings.json
     (`VIOLATION property=<id> replay=<path>`)
  2  harness error (vacuous harness, translator self-check mismatch, counterexample that does not
     reproduce) - never reported as a violation
"""
import json
import os
import re
import sys
import time

VERIF = os.path.dirname(os.path.dirname(os.path.abspath(__file__)))
FINDINGS = os.path.join(VERIF, "known_findings.json")


def load_findings(pid):
    if not os.path.exists(FINDINGS):
        return []
    with open(FINDINGS) as f:
        return [x for x in json.load(f) if x.get("property") == pid]


class Report:
    def __init__(self, pid, tier, seed=0, level="model_checking"):
        self.pid, self.tier, self.seed, self.level = pid, tier, int(seed), level
        self.t0 = time.time()
        self.obligations = []       # dicts: id, status, solver_s, ...
        self.samples = []
        self.violations = []        # (key, what, replay_path)
        self.known_hits = {}        # finding key -> what
        self.harness_errors = []
        self.assumptions = []
        self.functions = []
        self.bounds = {}
        self.outside = []
        self.trusted = []
        self.extra = {}
        self.solver_s = 0.0
        self.findings = load_findings(pid)

    # ---- obligations -------------------------------------------------------------------
    def ob(self, oid, status, solver_s=0.0, nontrivial=True, **info):
        """status: discharged | violated | known | undecided | not_encoded"""
        d = dict(id=oid, status=status, solver_s=round(solver_s, 3), nontrivial=bool(nontrivial))
        d.update(info)
        self.obligations.append(d)
        self.solver_s += solver_s
        return d

    def sample(self, s):
        if len(self.samples) < 12:
            self.samples.append(s)

    def harness_error(self, msg):
        self.harness_errors.append(msg)
        print("HARNESS-ERROR property=%s %s" % (self.pid, msg))

    # ---- violations ----------------------------------------------------------------------
    def match_finding(self, key):
        for f in self.findings:
            if f.get("status") == "fixed":
                continue  # a fixed entry suppresses nothing
            pat = f.get("key")
            if pat is None:
                continue
            if f.get("regex"):
                if re.fullmatch(pat, key):
                    return f
            elif pat == key:
                return f
        return None

    def violation(self, key, what, replay):
        """A reproduced violation. `replay` is a JSON-serialisable dict written to replays/."""
        f = self.match_finding(key)
        if f is not None:
            if f["key"] not in self.known_hits:
                self.known_hits[f["key"]] = f.get("what", what)
            return "known"
        d = os.path.join(VERIF, "replays", self.pid)
        os.makedirs(d, exist_ok=True)
        fn = os.path.join(d, re.sub(r"[^A-Za-z0-9_.-]+", "_", key)[:120] + ".json")
        replay = dict(replay)
        replay.setdefault("property", self.pid)
        replay.setdefault("key", key)
        replay.setdefault("what", what)
        with open(fn, "w") as fh:
            json.dump(replay, fh, indent=1, default=str)
        self.violations.append((key, what, fn))
        return "violated"

    # ---- finish --------------------------------------------------------------------------
    def finish(self):
        wall = time.time() - self.t0
        st = {}
        for o in self.obligations:
            st[o["status"]] = st.get(o["status"], 0) + 1
        n_ob = len(self.obligations)
        decided = st.get("discharged", 0) + st.get("known", 0) + st.get("violated", 0)
        distinct = len({o["id"] for o in self.obligations if o["nontrivial"] and o["status"] in ("discharged", "known", "violated")})
        cov = dict(
            evaluations=max(n_ob, 1),
            distinct_nontrivial=distinct,
            rule=self.extra.pop("rule", "one obligation = one solver query (SMT or CrossHair condition) over all inputs "
                                        "inside the stated bound; non-trivial = its reachability twin is satisfiable "
                                        "(the harness is not vacuous) and the query was decided"),
            samples=self.samples or [o for o in self.obligations[:5]],
            obligations=n_ob,
            discharged=st.get("discharged", 0),
            known_findings_reconfirmed=st.get("known", 0),
            violated=st.get("violated", 0),
            undecided=st.get("undecided", 0),
            not_encoded=st.get("not_encoded", 0),
            undecided_list=[o["id"] for o in self.obligations if o["status"] in ("undecided", "not_encoded")][:50],
            functions_encoded=self.functions,
            bounds=self.bounds,
            outside_bounds=self.outside,
            solver_time_s=round(self.solver_s, 2),
            trusted_base=self.trusted,
            checker_cmd="./check %s --tier %s" % (self.pid, self.tier),
            explanation=self.extra.pop("explanation", "bounded solver-based check; see DESIGN.md"),
            exhaustive=False,
            harness_errors=self.harness_errors,
        )
        cov.update(self.extra)
        ev = dict(property_id=self.pid, tier=self.tier, seed=self.seed, level=self.level,
                  coverage=cov, assumptions=self.assumptions, wall_s=round(wall, 2),
                  violations=len(self.violations))
        os.makedirs(os.path.join(VERIF, "evidence"), exist_ok=True)
        with open(os.path.join(VERIF, "evidence", self.pid + ".json"), "w") as fh:
            json.dump(ev, fh, indent=1, default=str)
        for k, what in self.known_hits.items():
            print("KNOWN-FINDING: property=%s %s [%s]" % (self.pid, what, k))
        for key, what, fn in self.violations:
            print("VIOLATION property=%s replay=%s  (%s: %s)" % (self.pid, fn, key, what))
        print("%s %s: %d obligations, %s, decided=%d, wall %.1fs, solver %.1fs" % (
            self.pid, self.tier, n_ob, st, decided, wall, self.solver_s))
        if self.violations:
            return 1
        if self.harness_errors:
            return 2
        if distinct < 2 and decided < 2:
            print("HARNESS-ERROR property=%s fewer than 2 decided obligations" % self.pid)
            return 2
        return 0


def main_wrapper(pid, fn):
    """Entry used by ./check: fn(report, tier) fills the report."""
    import argparse
    ap = argparse.ArgumentParser()
    ap.add_argument("--tier", default=os.environ.get("VERIF_TIER", "quick"))
    ap.add_argument("--replay", default=None)
    a = ap.parse_args(sys.argv[2:])
    rep = Report(pid, a.tier, seed=int(os.environ.get("VERIF_SEED", "0") or 0))
    return rep, a
