"""C21 - Time_Period values round-trip through every input and output representation (character-level SMT)."""
import time

import z3

from vt.sqlsmt import cal, periodio as PIO, strmac as SM
from vt.sqlsmt.strmac import AND, OR, S, T, F

INDS = ["A", "S", "Q", "M", "W", "D"]
YMIN, YMAX = 1000, 9999


def doc_output(fmt, ind, y, n, calx):
    """documented rendering (docs/data_types.rst 'Output formats') as char codes, or None when 'Not supported'"""
    yd = [z3.IntVal(48) + (y / (10 ** k)) % 10 for k in (3, 2, 1, 0)]

    def unpadded(v, maxd):
        # alternatives by digit count
        alts = []
        for nd in range(1, maxd + 1):
            lo, hi = (0 if nd == 1 else 10 ** (nd - 1)), 10 ** nd - 1
            alts.append((z3.And(v >= lo, v <= hi), [z3.IntVal(48) + (v / (10 ** k)) % 10 for k in reversed(range(nd))]))
        return alts

    def padded(v, w):
        return [z3.IntVal(48) + (v / (10 ** k)) % 10 for k in reversed(range(w))]

    def date_chars():
        z = cal._days_from_civil(y, z3.IntVal(1), z3.IntVal(1)) + n - 1
        yy, mm, dd = calx.civil(z)
        return padded(yy, 4) + [z3.IntVal(45)] + padded(mm, 2) + [z3.IntVal(45)] + padded(dd, 2)
    L = lambda s: [z3.IntVal(ord(c)) for c in s]  # noqa: E731
    if fmt == "vtl":
        if ind == "A":
            return [(T, yd)]
        return [(g, yd + L(ind) + d) for g, d in unpadded(n, 3)]
    if fmt == "sdmx_reporting":
        if ind == "A":
            return [(T, yd + L("-A1"))]
        return [(T, yd + L("-" + ind) + padded(n, PIO.WIDTH[ind]))]
    if fmt == "sdmx_gregorian":
        if ind == "A":
            return [(T, yd)]
        if ind == "M":
            return [(T, yd + L("-") + padded(n, 2))]
        if ind == "D":
            return [(T, date_chars())]
        return None
    if fmt == "natural":
        if ind == "A":
            return [(T, yd)]
        if ind in ("S", "Q"):
            return [(T, yd + L("-" + ind) + padded(n, 1))]
        if ind == "M":
            return [(T, yd + L("-") + padded(n, 2))]
        if ind == "W":
            return [(T, yd + L("-W") + padded(n, 2))]
        return [(T, date_chars())]
    raise ValueError(fmt)


def s_equals_alts(s, alts):
    """string value s equals the guarded char-list alternatives"""
    return OR(*[AND(g, PIO.equals_chars(s, ch)) for g, ch in alts])


def run(rep, tier):
    t0 = time.time()
    me = PIO.macro_eval()
    calx = cal.Cal(None)
    timeout = 180000 if tier == "quick" else 600000
    rep.functions = ["init.sql: vtl_period_normalize, vtl_period_to_vtl, vtl_period_to_sdmx_reporting, vtl_period_to_sdmx_gregorian, vtl_period_to_natural, vtl_doy_to_date (parsed from the file on every run)",
                     "io/_validation.py: TIME_PERIOD_PATTERN (compiled to a position-set automaton), the loader's normalise-then-validate order (_validate_loaded_table)"]
    rep.bounds = {"both tiers": "every year 1000-9999 and every period number valid for its year, symbolically; all 22 documented input layouts + YYYY-MM-DD; 4 output formats x 6 indicators",
                  "date-shaped obligations (YYYY-MM-DD input, gregorian/natural rendering of daily periods)": "years 2019-2022 in the quick tier, 1900-2100 in the thorough tier"}
    rep.outside = ["years below 1000 (the 4-character year layout breaks on both sides)", "Python TimePeriodHandler parsing/rendering (string-parsing Python is out of CrossHair's reach; part (iv) of the statement is not claimed)",
                   "apply_time_period_representation's UPDATE plumbing"]
    rep.trusted = ["vt/sqlsmt/strmac.py semantics of SUBSTR/LENGTH/UPPER/TRIM/LPAD/CAST on the modelled alphabet (self-checked against real DuckDB on sampled and witness cells)", "transcription of the documented format tables", "z3"]
    rep.assumptions = ["cells are non-null, non-empty strings over the alphabet 0-9 A S Q M W D (both cases) '-' and space"]
    # ---- self-check of the character-level encoding against real DuckDB
    import random
    rng = random.Random(rep.seed)
    cells = ["2020", "2020A", "2020-A1", "2020S1", "2020-S2", "2020Q4", "2020-Q1", "2020M1", "2020M01", "2020-01", "2020-1", "2020-M01", "2020-M1", "2020M13", "2020W1",
             "2020W01", "2020-W01", "2020W53", "2020D1", "2020D01", "2020D001", "2020-D1", "2020-D366", "2021-D366", "2020-01-01", "2020-02-30", " 2020M1", "2020m1 ", "2020-d5"]
    for _ in range(60):
        L = rng.choice([4, 5, 6, 7, 8, 9, 10])
        cells.append("".join(rng.choice(PIO.ALPHABET) for _ in range(L)))
    real = PIO.real_normalize(cells)
    mism = 0
    for cell, (rn, rok) in zip(cells, real):
        acc, n = PIO.loader_accepts(me, [z3.IntVal(ord(c)) for c in cell])
        mine = z3.is_true(z3.simplify(acc))
        realacc = (not isinstance(rn, tuple)) and (rn is None or rn == "" or bool(rok))
        if mine != realacc:
            mism += 1
            rep.harness_error("character-level encoding disagrees with real DuckDB on cell %r: encoding %s, DuckDB %s" % (cell, mine, rn))
    rep.extra["selfcheck_cells_compared_with_duckdb"] = len(cells)
    if mism:
        return

    JOBS.clear()

    def decide(oid, desc, constraints, witness_fn, replay_fn, keyf):
        JOBS[oid] = (desc, constraints, witness_fn, replay_fn, keyf, timeout)

    y, n = z3.Int("y"), z3.Int("n")
    yd_ = [z3.IntVal(48) + (y / (10 ** k)) % 10 for k in (3, 2, 1, 0)]
    # redundant lemma (decimal digits of a 4-digit year recompose to the year): spares the solver the div/mod reasoning
    yr = [y >= YMIN, y <= YMAX, PIO.num(yd_) == y]
    # ---- (i) every documented input spelling is accepted and denotes the canonical period
    for name, ind, layout in PIO.FORMATS:
        k = [x for x in layout if isinstance(x, tuple)]
        width = k[0][1] if k else None
        chars = PIO.render_format(layout, y, n)
        acc, norm = PIO.loader_accepts(me, chars)
        canon = PIO.canonical_chars(y, ind, n if width else z3.IntVal(1))
        good = z3.And(acc, PIO.equals_chars(norm, canon))
        cons = yr + [PIO.valid_number(ind, y, n) if width else n == 1]
        if width:
            cons.append(z3.And(n >= 0, n < 10 ** width))
            if width == 1 and ind in ("M", "W", "D"):
                pass
        # reachability twin
        tw = z3.Solver()
        tw.add(*cons)
        if tw.check() != z3.sat:
            rep.harness_error("vacuous input-format obligation %s" % name)
            continue

        def wit(m, layout=layout):
            return "".join(chr(m.eval(c, model_completion=True).as_long()) for c in PIO.render_format(layout, m.eval(y, True), m.eval(n, True)))

        def rp(cell, ind=ind, layout=layout):
            (rn, rok), = PIO.real_normalize([cell])
            acc_real, det = PIO.real_loader_accepts(cell)
            want = _canon_of(cell, layout, ind)
            return (isinstance(rn, tuple) or not rok or acc_real is not True or rn != want), "normalize -> %r (canonical: %r), pattern %s, run(): %s" % (rn, want, rok, det)
        decide("input:%s" % name, "every valid period written as %s is accepted by the loader and normalised to its canonical spelling" % name,
               cons + [z3.Not(good)], wit, rp, lambda w, d, name=name: ("C21:input:%s" % name, "documented spelling %s of a valid period is rejected or denotes another period: %r (%s)" % (name, w, d)))
    # YYYY-MM-DD
    m_, d_ = z3.Int("m"), z3.Int("d")
    chars = ([z3.IntVal(48) + (y / (10 ** k)) % 10 for k in (3, 2, 1, 0)] + [z3.IntVal(45)] + [z3.IntVal(48) + (m_ / 10) % 10, z3.IntVal(48) + m_ % 10] + [z3.IntVal(45)]
             + [z3.IntVal(48) + (d_ / 10) % 10, z3.IntVal(48) + d_ % 10])
    acc, norm = PIO.loader_accepts(me, chars)
    doy = cal._days_from_civil(y, m_, d_) - cal._days_from_civil(y, z3.IntVal(1), z3.IntVal(1)) + 1
    good = z3.And(acc, PIO.equals_chars(norm, PIO.canonical_chars(y, "D", doy)))
    decide("input:YYYY-MM-DD", "every calendar date YYYY-MM-DD is accepted and normalised to the daily period of its day of year",
           yr + ([y >= 2019, y <= 2022] if tier == "quick" else [y >= 1900, y <= 2100]) + [m_ >= 1, m_ <= 12, d_ >= 1, d_ <= cal.dim(y, m_), z3.Not(good)],
           lambda m: "%04d-%02d-%02d" % (m.eval(y, True).as_long(), m.eval(m_, True).as_long(), m.eval(d_, True).as_long()),
           lambda cell: ((lambda r: isinstance(r[0], tuple) or not r[1])(PIO.real_normalize([cell])[0]), str(PIO.real_normalize([cell])[0])),
           lambda w, d: ("C21:input:YYYY-MM-DD", "date %r rejected or mis-normalised (%s)" % (w, d)))
    # ---- (ii) + (iii): every output format renders the documented representation, and reading it back gives the same period
    fmts = {"vtl": "vtl_period_to_vtl", "sdmx_reporting": "vtl_period_to_sdmx_reporting", "sdmx_gregorian": "vtl_period_to_sdmx_gregorian", "natural": "vtl_period_to_natural"}
    for fmt, macro in fmts.items():
        for ind in INDS:
            canon = PIO.canonical_chars(y, ind, n)
            cons = yr + [PIO.valid_number(ind, y, n) if ind != "A" else n == 1]
            if ind == "D" and fmt in ("sdmx_gregorian", "natural") and tier == "quick":
                cons = cons + ([y >= 2019, y <= 2022] if tier == "quick" else [y >= 1900, y <= 2100])   # date rendering inverts the day number: narrow year range
            out = me.call(macro, S([(T, canon)]))
            doc = doc_output(fmt, ind, y, n, calx)

            def wit(m, ind=ind):
                return PIO_render(m.eval(y, True).as_long(), ind, m.eval(n, True).as_long())
            if doc is None:
                decide("output:%s:%s" % (fmt, ind), "format %s cannot express indicator %s: a VTL error (2-1-19-21) is raised" % (fmt, ind),
                       cons + [z3.Not(out.err)], wit, lambda c, macro=macro: (_real_macro(macro, c)[0] != "error", str(_real_macro(macro, c))),
                       lambda w, d, fmt=fmt, ind=ind: ("C21:output:%s:%s" % (fmt, ind), "no error for %r in format %s (%s)" % (w, fmt, d)))
                continue
            good = z3.And(z3.Not(out.err), z3.Not(out.null), s_equals_alts(out, doc))
            decide("output:%s:%s" % (fmt, ind), "vtl_period_to_%s renders every valid %s period in its documented representation" % (fmt, ind),
                   cons + [z3.Not(good)], wit, lambda c, macro=macro, fmt=fmt, ind=ind: _real_output_wrong(macro, fmt, ind, c),
                   lambda w, d, fmt=fmt, ind=ind: ("C21:output:%s:%s" % (fmt, ind), "period %r rendered as %s in format %s" % (w, d, fmt)))
            # round trip: the rendered value read back through the loader
            back = []
            for g, ch in SM.merge(out).alts:
                acc, norm = PIO.loader_accepts(me, ch)
                back.append(z3.And(g, acc, PIO.equals_chars(norm, canon)))
            rt = z3.And(z3.Not(out.err), OR(*back))
            decide("roundtrip:%s:%s" % (fmt, ind), "feeding the %s rendering of a valid %s period back as input yields the same period" % (fmt, ind),
                   cons + list(me.lemmas) + [z3.Not(rt)], wit, lambda c, macro=macro: _real_roundtrip_wrong(macro, c),
                   lambda w, d, fmt=fmt, ind=ind: ("C21:roundtrip:%s:%s" % (fmt, ind), "period %r does not survive output format %s + re-reading: %s" % (w, fmt, d)))
    import concurrent.futures as cf
    import multiprocessing as mp
    with cf.ProcessPoolExecutor(max_workers=16, mp_context=mp.get_context("fork")) as ex:
        results = list(ex.map(_solve_job, list(JOBS)))
    for r in results:
        oid = r["oid"]
        if r["status"] == "discharged":
            rep.ob(oid, "discharged", r["dt"], desc=r["desc"])
        elif r["status"] == "violated":
            st = rep.violation(r["key"], r["what"], dict(witness=r["witness"], detail=r["detail"], obligation=oid))
            rep.ob(oid, st, r["dt"], desc=r["desc"], witness=r["witness"], key=r["key"])
        elif r["status"] == "noreplay":
            rep.harness_error("%s: solver witness %r does not reproduce on real DuckDB (%s)" % (oid, r["witness"], r["detail"]))
            rep.ob(oid, "undecided", r["dt"], nontrivial=False, desc=r["desc"])
        else:
            rep.ob(oid, "undecided", r["dt"], nontrivial=False, desc=r["desc"], note=r.get("note"))
    rep.sample({"obligation": "input:YYYY-Mx", "query": "exists y in 1000..9999, n in 1..9: not (loader_accepts(render(y,n)) and normalize(render(y,n)) == canonical(y,'M',n))", "verdict": "unsat"})
    rep.extra["rule"] = ("one obligation = one (format, indicator) family decided for every year 1000-9999 and every valid period number at once by z3 over the character-level encoding of the real macros; "
                         "non-trivial = the family is non-empty")


JOBS = {}


def _solve_job(oid):
    desc, constraints, witness_fn, replay_fn, keyf, timeout = JOBS[oid]
    s = z3.Solver()
    s.set("timeout", timeout)
    s.add(*constraints)
    t = time.time()
    r = s.check()
    dt = time.time() - t
    out = dict(oid=oid, desc=desc, dt=dt)
    if r == z3.unsat:
        out["status"] = "discharged"
    elif r != z3.sat:
        out.update(status="undecided", note=str(r))
    else:
        w = witness_fn(s.model())
        ok, detail = replay_fn(w)
        if ok:
            key, what = keyf(w, detail)
            out.update(status="violated", witness=w, detail=detail, key=key, what=what)
        else:
            out.update(status="noreplay", witness=w, detail=detail)
    return out


def PIO_render(y, ind, n):
    from vt.sqlsmt.harness import render_tp
    return render_tp(y, ind, n)


def _canon_of(cell, layout, ind):
    """canonical internal spelling of a cell written in `layout` (python side of PIO.canonical_chars)"""
    pos, y, n = 0, None, 1
    for x in layout:
        if x == "Y":
            y = int(cell[pos:pos + 4])
            pos += 4
        elif isinstance(x, tuple):
            n = int(cell[pos:pos + x[1]])
            pos += x[1]
        else:
            pos += 1
    return "%04dA" % y if ind == "A" else "%04d-%s%0*d" % (y, ind, PIO.WIDTH[ind], n)


def _denotes(normalised, cell, ind):
    return isinstance(normalised, str) and (normalised.endswith("A") if ind == "A" else ("-" + ind) in normalised)


def _real_macro(macro, canonical):
    import duckdb
    from vtlengine.duckdb_transpiler.sql import initialize_time_types
    conn = duckdb.connect(config={"threads": 1})
    initialize_time_types(conn)
    try:
        return ("ok", conn.execute("SELECT %s(?)" % macro, [canonical]).fetchone()[0])
    except duckdb.Error as e:
        return ("error", str(e)[:100])
    finally:
        conn.close()


def _doc_py(fmt, ind, y, n):
    import datetime
    if fmt == "vtl":
        return "%d" % y if ind == "A" else "%d%s%d" % (y, ind, n)
    if fmt == "sdmx_reporting":
        return "%d-A1" % y if ind == "A" else "%d-%s%0*d" % (y, ind, PIO.WIDTH[ind], n)
    date = (datetime.date(y, 1, 1) + datetime.timedelta(days=n - 1)).isoformat() if ind == "D" else None
    if ind == "A":
        return "%d" % y
    if ind == "M":
        return "%d-%02d" % (y, n)
    if ind == "D":
        return date
    if fmt == "natural":
        return "%d-%s%0*d" % (y, ind, PIO.WIDTH[ind], n)
    return None


def _parse_canon(c):
    import re
    m = re.fullmatch(r"(\d{4})A", c)
    if m:
        return int(m.group(1)), "A", 1
    m = re.fullmatch(r"(\d{4})-([SQMWD])(\d+)", c)
    return int(m.group(1)), m.group(2), int(m.group(3))


def _real_output_wrong(macro, fmt, ind, canonical):
    y, i, n = _parse_canon(canonical)
    st, v = _real_macro(macro, canonical)
    want = _doc_py(fmt, ind, y, n)
    return (st != "ok" or v != want), "%r (documented: %r)" % (v, want)


def _real_roundtrip_wrong(macro, canonical):
    st, v = _real_macro(macro, canonical)
    if st != "ok":
        return True, "rendering failed: %s" % v
    (rn, rok), = PIO.real_normalize([v])
    return (rn != canonical or not rok), "rendered %r, read back as %r" % (v, rn)


def replay(path):
    import json
    d = json.load(open(path))
    print(json.dumps(d, indent=1)[:1500])
    return 1
