from vt import templates
from vt.props import _engine_a


def run(rep, tier):
    _engine_a.run(rep, tier, templates.c08(tier),
                  functions=["time_operators.sql macros: vtl_tp_shift, vtl_period_limit, vtl_tp_start_date, vtl_tp_end_date, vtl_tp_getmonth, vtl_tp_dayofmonth, vtl_tp_dayofyear, vtl_tp_datediff, "
                             "vtl_dateadd, vtl_tp_dateadd, vtl_time_agg_date, vtl_time_agg_tp, vtl_period_rank; init.sql: vtl_period_lt/le/gt/ge, vtl_period_check_indicator",
                             "SQLTranspiler.visit_BinOp_timeshift, _visit_flow_stock, _visit_period_indicator, visit_TimeAggregation, visit_ParamOp_dateadd, typed registry overrides",
                             "vt/sqlsmt/cal.py: DuckDB's MAKE_DATE LAST_DAY YEAR MONTH DAY DAYOFYEAR QUARTER ISOYEAR WEEK DATE_DIFF +INTERVAL STRPTIME('%G-W%V-%u') STRFTIME in linear integer arithmetic"],
                  bounds={"quick": "every period number valid for its year and every date of the years 1990-2030 (daily-period shards: 2014-2026), symbolically; one solver shard per period indicator; "
                                   "timeshift by 1, -1, 5, 0 on datasets of 2 datapoints (incl. no two shifted datapoints collide); getyear/getmonth/dayofmonth/dayofyear, datediff, dateadd, time_agg, "
                                   "period_indicator, period comparisons on 1 datapoint; flow_to_stock / stock_to_flow on 3 datapoints",
                          "thorough": "years 1900-2100, shifts 1 -1 3 -3 12 53 -60 0, more dateadd offsets"},
                  outside=["Time_Period values are modelled as (year, indicator, number) triples in canonical spelling - the string layer is C21's subject", "fill_time_series (recursive CTE) and timeshift on Date (frequency inference)",
                           "dateadd by months when the day of month exceeds 28 (clamping rule not established offline)", "time_agg of a week that straddles two target periods", "time of day in Date values"],
                  assumptions=["getmonth = month of the period's start date, dayofmonth/dayofyear = of its end date, getyear = the period's own year, datediff = distance of end dates"])


def replay(path):
    from vt.props import _replay
    return _replay.replay_file("C08", path)
