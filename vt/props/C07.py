from vt import templates
from vt.props import _engine_a


def run(rep, tier):
    _engine_a.run(rep, tier, templates.c07(tier),
                  functions=["SQLTranspiler.visit_Validation (check)", "visit_DPValidation / _build_dp_rule_sql (check_datapoint, all three outputs, when/then)",
                             "visit_HROperation / _build_hr_pivot / _build_check_hierarchy_sql / _build_hierarchy_sql / _build_hr_value_expr (pivot MAX(CASE), CTE chain, LEFT JOIN USING)"],
                  bounds={"quick": "2-3 datapoints; check all/invalid with errorcode/errorlevel/imbalance; datapoint rulesets of 1-2 rules x {default, invalid, all, all_measures}; hierarchical rulesets of "
                                   "1-2 rules over code items a/b/c x {invalid, all, all_measures} x modes {non_null, always_null, always_zero}; hierarchy computed/all incl. a dependent rule chain",
                          "thorough": "3 datapoints for every template"},
                  outside=["validation modes non_zero, partial_null, partial_zero (their filter conditions could not be established offline)", "conditioned hierarchical rules, rule_priority / dataset_priority input modes",
                           "groups in which none of a rule's code items exists under always_* modes", "hierarchy in modes other than non_null", "rule ordering through HRDAGAnalyzer.sort_hr_rules beyond a 2-rule chain"])


def replay(path):
    from vt.props import _replay
    return _replay.replay_file("C07", path)
