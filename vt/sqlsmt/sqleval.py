"""ENGINE A core: bounded symbolic evaluation (z3) of the DuckDB SQL emitted by the real transpiler.

The SQL text is parsed with sqlglot (dialect duckdb) and evaluated over symbolic tables
(vt/sqlsmt/sym.py).  Everything is quantifier-free: a table of N symbolic rows is a list, joins
are products with presence conditions, grouping/windowing are O(N^2) folds.  An SQL construct the
evaluator does not know raises Unsupported (the template is then reported as *not encoded*).
"""
import z3
from sqlglot import exp, parse_one

from vt.sqlsmt.sym import (FALSE, NULL, SV, TRUE, Row, Table, Unsupported, as_kind, is_true, ite, lex_less, lit, same,
                           unify, int_to_double, trunc_real)

AGG_TYPES = (exp.Sum, exp.Avg, exp.Count, exp.Min, exp.Max, exp.Median, exp.Stddev, exp.StddevPop, exp.StddevSamp,
             exp.Variance, exp.VariancePop, exp.ArgMin, exp.ArgMax, exp.LogicalAnd, exp.LogicalOr, exp.ArrayAgg,
             exp.AnyValue, exp.First, exp.List if hasattr(exp, "List") else exp.ArrayAgg)
AGG_ANON = {"BOOL_AND", "BOOL_OR", "LIST", "ARG_MIN", "ARG_MAX", "STDDEV_POP", "STDDEV_SAMP", "VAR_POP", "VAR_SAMP",
            "MEDIAN", "ANY_VALUE", "FIRST"}


def parse(sql):
    return parse_one(sql, read="duckdb")


def _name(ident):
    return ident.name if hasattr(ident, "name") else str(ident)


class Tup:
    """One row of an intermediate relation: presence, bindings [(alias, colnames, cols)], order key."""
    __slots__ = ("present", "binds", "ord")

    def __init__(self, present, binds, ord_):
        self.present, self.binds, self.ord = present, binds, list(ord_)


def _og(outer, g):
    """guard of a (correlated) subquery tuple: the enclosing row must exist too"""
    return z3.And(outer.guard, g) if outer is not None else g


class Scope:
    def __init__(self, ev, tup, guard, outer=None, tuples=None, idx=None, members=None, aliases=None):
        self.ev, self.tup, self.guard, self.outer = ev, tup, guard, outer
        self.tuples, self.idx, self.members = tuples, idx, members
        self.aliases = aliases or {}

    def with_guard(self, g):
        s = Scope(self.ev, self.tup, z3.And(self.guard, g), self.outer, self.tuples, self.idx, self.members, self.aliases)
        return s

    def at(self, j):
        """The same query scope positioned on tuple j (aggregate / window argument evaluation)."""
        return Scope(self.ev, self.tuples[j], z3.And(self.guard, self.tuples[j].present), self.outer,
                     self.tuples, j, None, self.aliases)

    def resolve(self, col, table=None):
        hits = []
        for alias, names, cols in self.tup.binds:
            if table is not None and (alias or "").lower() != table.lower():
                continue
            if col in cols:
                hits.append(cols[col])
                continue
            cand = [n for n in names if n.lower() == col.lower()]
            if len(cand) == 1:
                hits.append(cols[cand[0]])
            elif len(cand) > 1:
                raise Unsupported("ambiguous case-insensitive column %s" % col)
        if hits:
            return hits[0]   # DuckDB would report ambiguity for >1 unqualified hits; USING/merged cols are equal
        if table is None and col in self.aliases:
            return self.ev.expr(self.aliases[col], Scope(self.ev, self.tup, self.guard, self.outer, self.tuples, self.idx, self.members, {}))
        if self.outer is not None:
            return self.outer.resolve(col, table)
        raise Unsupported("unresolved column %s%s" % ((table + ".") if table else "", col))


class Evaluator:
    def __init__(self, ctx, tables, macros=None):
        self.ctx = ctx
        self.tables = dict(tables)      # name -> Table (inputs and earlier results)
        self.macros = macros or {}      # name(lower) -> (params, body expression)
        self.macro_depth = 0

    # ------------------------------------------------------------------ queries
    def query(self, q, ctes=None, outer=None):
        ctes = dict(ctes or {})
        w = q.args.get("with_") or q.args.get("with")
        if w is not None:
            if w.args.get("recursive"):
                raise Unsupported("WITH RECURSIVE")
            for cte in w.expressions:
                ctes[cte.alias.lower()] = self.query(cte.this, ctes, outer)
        if isinstance(q, exp.Subquery):
            return self.query(q.this, ctes, outer)
        if isinstance(q, exp.Paren):
            return self.query(q.this, ctes, outer)
        if isinstance(q, exp.Union):
            if q.args.get("distinct"):
                raise Unsupported("UNION DISTINCT")
            a = self.query(q.this, ctes, outer)
            b = self.query(q.expression, ctes, outer)
            if len(a.cols) != len(b.cols):
                raise Unsupported("UNION arity")
            rows = []
            for bi, t in enumerate((a, b)):
                for r in t.rows:
                    cols = {}
                    for ca, cb in zip(a.cols, t.cols):
                        cols[ca] = r.cols[cb]
                    rows.append(Row(r.present, cols, [z3.IntVal(bi)] + r.ord))
            # unify kinds column-wise (UNION ALL is positional)
            for ca in a.cols:
                for r in rows:
                    if r.cols[ca].kind not in ("null", "struct") and z3.is_true(r.cols[ca].null):
                        r.cols[ca] = NULL()     # typed NULL literal: adopts the column's kind
                kinds = {r.cols[ca].kind for r in rows} - {"null"}
                if len(kinds) > 1:
                    k = "real" if kinds == {"int", "real"} else None
                    if k is None:
                        raise Unsupported("UNION kinds %s" % kinds)
                    for r in rows:
                        r.cols[ca] = as_kind(r.cols[ca], k)
                elif kinds:
                    k = next(iter(kinds))
                    for r in rows:
                        r.cols[ca] = as_kind(r.cols[ca], k)
            return Table(a.cols, rows)
        if isinstance(q, (exp.Intersect, exp.Except)):
            # SQL INTERSECT / EXCEPT (DISTINCT): whole-row comparison (NULLs equal), duplicates removed; positional columns
            if q.args.get("distinct") is False:
                raise Unsupported("%s ALL" % type(q).__name__)
            a = self.query(q.this, ctes, outer)
            b = self.query(q.expression, ctes, outer)
            if len(a.cols) != len(b.cols):
                raise Unsupported("set operation arity")
            rows = []
            for i, r in enumerate(a.rows):
                inb = z3.Or(*[z3.And(o.present, *[same(r.cols[ca], o.cols[cb]) for ca, cb in zip(a.cols, b.cols)]) for o in b.rows]) if b.rows else FALSE
                dup = [z3.And(a.rows[j].present, *[same(r.cols[c], a.rows[j].cols[c]) for c in a.cols]) for j in range(i)]
                keep = inb if isinstance(q, exp.Intersect) else z3.Not(inb)
                rows.append(Row(z3.And(r.present, keep, *[z3.Not(d) for d in dup]), dict(r.cols), r.ord))
            return Table(a.cols, rows)
        if isinstance(q, exp.Select):
            return self.select(q, ctes, outer)
        raise Unsupported("query node %s" % type(q).__name__)

    def source(self, node, ctes, outer):
        """-> (alias, Table)"""
        if isinstance(node, exp.Table):
            name = node.name
            alias = node.alias or name
            if node.args.get("db") or node.args.get("catalog"):
                raise Unsupported("qualified table")
            t = None
            if name.lower() in ctes:
                t = ctes[name.lower()]
            else:
                for k, v in self.tables.items():
                    if k == name:
                        t = v
                        break
                if t is None:
                    cand = [v for k, v in self.tables.items() if k.lower() == name.lower()]
                    if len(cand) == 1:
                        t = cand[0]
            if t is None:
                raise Unsupported("unknown table %s" % name)
            return alias, t
        if isinstance(node, exp.Subquery):
            t = self.query(node.this, ctes, outer)
            w = node.args.get("with_")
            if w is not None:
                raise Unsupported("subquery WITH")
            return node.alias or None, t
        raise Unsupported("FROM item %s" % type(node).__name__)

    def _tuples_of(self, alias, t):
        return [Tup(r.present, [(alias, t.cols, r.cols)], r.ord) for r in t.rows]

    def _null_bind(self, alias, t):
        proto = t.rows[0].cols if t.rows else {}
        cols = {}
        for c in t.cols:
            sv = proto.get(c)
            if sv is None or sv.kind == "null":
                cols[c] = NULL()
            elif sv.kind == "struct":
                cols[c] = SV("struct", TRUE, None, sv.fields)
            else:
                cols[c] = NULL(sv.kind)
        return (alias, t.cols, cols)

    def select(self, sel, ctes, outer):
        ctx = self.ctx
        frm = sel.args.get("from_") or sel.args.get("from")
        if frm is None:
            tuples = [Tup(TRUE, [], [])]
        else:
            alias, t = self.source(frm.this, ctes, outer)
            tuples = self._tuples_of(alias, t)
        for j in sel.args.get("joins") or []:
            tuples = self.join(tuples, j, ctes, outer)
        aliases = {}
        for e in sel.expressions:
            if isinstance(e, exp.Alias):
                aliases[e.alias] = e.this
        # WHERE
        wh = sel.args.get("where")
        if wh is not None:
            new = []
            for tp in tuples:
                sc = Scope(self, tp, _og(outer, tp.present), outer)
                c = is_true(self.expr(wh.this, sc))
                new.append(Tup(z3.And(tp.present, c), tp.binds, tp.ord))
            tuples = new
        group = sel.args.get("group")
        having = sel.args.get("having")
        has_agg = group is not None or having is not None or any(self._has_agg(e) for e in sel.expressions)
        out_rows = []
        if has_agg:
            keys = []
            gexprs = list(group.expressions) if group is not None else []
            if group is not None and (group.args.get("grouping_sets") or group.args.get("cube") or group.args.get("rollup")
                                      or group.args.get("all")):
                raise Unsupported("GROUP BY variant")
            for tp in tuples:
                sc = Scope(self, tp, _og(outer, tp.present), outer, aliases=aliases)
                keys.append([self._group_key(g, sc, sel) for g in gexprs])
            n = len(tuples)
            if gexprs:
                reps = []
                for i in range(n):
                    members = [z3.And(tuples[j].present, *[same(keys[i][k], keys[j][k]) for k in range(len(gexprs))])
                               for j in range(n)]
                    first = z3.And(tuples[i].present, *[z3.Not(members[j]) for j in range(i)])
                    reps.append((i, first, members))
            else:
                members = [tp.present for tp in tuples]
                # a global aggregate yields exactly one row (even over an empty input)
                proto = tuples[0] if tuples else Tup(TRUE, [], [])
                if not tuples:
                    tuples = [proto]
                    members = [FALSE]
                reps = [(0, TRUE, members)]
            for i, first, members in reps:
                sc = Scope(self, tuples[i], _og(outer, first), outer, tuples=tuples, idx=i, members=members, aliases=aliases)
                pres = first
                if having is not None:
                    pres = z3.And(pres, is_true(self.expr(having.this, sc)))
                out_rows.append((pres, sc, tuples[i].ord))
        else:
            for i, tp in enumerate(tuples):
                sc = Scope(self, tp, _og(outer, tp.present), outer, tuples=tuples, idx=i, aliases=aliases)
                out_rows.append((tp.present, sc, tp.ord))
        # window functions need the post-WHERE/GROUP relation: rebuild tuples for grouped queries
        if has_agg and (sel.args.get("qualify") is not None or any(self._has_window(e) for e in sel.expressions)):
            raise Unsupported("window over grouped query")
        qual = sel.args.get("qualify")
        if qual is not None:
            new = []
            for pres, sc, o in out_rows:
                new.append((z3.And(pres, is_true(self.expr(qual.this, sc))), sc, o))
            out_rows = new
        # projection
        names = None
        rows = []
        for pres, sc, o in out_rows:
            nm, cols = self.project(sel, sc)
            if names is None:
                names = nm
            rows.append(Row(pres, cols, o))
        if names is None:
            names, _ = self.project_names(sel, ctes, outer, frm)
        # harmonise kinds per column
        for c in names:
            kinds = {r.cols[c].kind for r in rows} - {"null"}
            if len(kinds) > 1:
                for r in rows:
                    if r.cols[c].kind not in ("null", "struct") and z3.is_true(r.cols[c].null):
                        r.cols[c] = NULL()
                kinds = {r.cols[c].kind for r in rows} - {"null"}
            if len(kinds) == 1:
                k = next(iter(kinds))
                for r in rows:
                    if r.cols[c].kind == "null":
                        r.cols[c] = as_kind(r.cols[c], k) if k != "struct" else r.cols[c]
            elif kinds == {"int", "real"}:
                for r in rows:
                    r.cols[c] = as_kind(r.cols[c], "real")
            elif len(kinds) > 1:
                raise Unsupported("column %s kinds %s" % (c, kinds))
        if sel.args.get("distinct"):
            for i, r in enumerate(rows):
                dup = [z3.And(rows[j].present, *[same(rows[j].cols[c], r.cols[c]) for c in names]) for j in range(i)]
                r.present = z3.And(r.present, *[z3.Not(d) for d in dup])
        if sel.args.get("limit") is not None or sel.args.get("offset") is not None:
            raise Unsupported("LIMIT/OFFSET")
        return Table(names, rows)

    def project_names(self, sel, ctes, outer, frm):
        # empty relation: derive names from a dummy tuple of null bindings is not needed for the
        # templates (inputs always have >= 1 symbolic row)
        raise Unsupported("projection over a relation with no symbolic rows")

    def _group_key(self, g, sc, sel):
        # GROUP BY may name a select alias or an ordinal
        if isinstance(g, exp.Literal) and not g.is_string:
            e = sel.expressions[int(g.name) - 1]
            return self.expr(e.this if isinstance(e, exp.Alias) else e, sc)
        return self.expr(g, sc)

    def _has_agg(self, e):
        for n in e.walk():
            n = n[0] if isinstance(n, tuple) else n
            if self._is_agg(n) and not self._under_window(n, e) and not self._in_nested_query(n, e):
                return True
        return False

    @staticmethod
    def _in_nested_query(n, root):
        """the aggregate belongs to a sub-query (EXISTS / scalar subquery) of the expression, not to the query being projected"""
        p = n.parent
        while p is not None and p is not root:
            if isinstance(p, (exp.Select, exp.Subquery)):
                return True
            p = p.parent
        return False

    def _is_agg(self, n):
        if isinstance(n, AGG_TYPES):
            return True
        if isinstance(n, exp.Anonymous) and str(n.this).upper() in AGG_ANON:
            return True
        return False

    def _under_window(self, n, root):
        p = n.parent
        while p is not None and p is not root.parent:
            if isinstance(p, exp.Window):
                return True
            if isinstance(p, (exp.Select, exp.Subquery)):
                return False
            p = p.parent
        return False

    def _has_window(self, e):
        return any(isinstance(n[0] if isinstance(n, tuple) else n, exp.Window) for n in e.walk())

    def project(self, sel, sc):
        names, cols = [], {}

        def put(n, v):
            if n in cols:
                # duplicate output column name: DuckDB renames (n_1...); the transpiler never relies on it
                raise Unsupported("duplicate output column %s" % n)
            names.append(n)
            cols[n] = v
        for e in sel.expressions:
            if isinstance(e, exp.Star):
                excl = {self._colname(x).lower() for x in (e.args.get("except_") or e.args.get("except") or [])}
                if e.args.get("replace") or e.args.get("rename"):
                    raise Unsupported("* REPLACE/RENAME")
                seen = set()
                for alias, cn, cc in sc.tup.binds:
                    for n in cn:
                        if n.lower() in excl:
                            continue
                        if n in seen:
                            raise Unsupported("* with duplicate column %s" % n)
                        seen.add(n)
                        put(n, cc[n])
            elif isinstance(e, exp.Column) and isinstance(e.this, exp.Star):
                tn = e.table
                excl = {self._colname(x).lower() for x in (e.this.args.get("except_") or [])}
                found = False
                for alias, cn, cc in sc.tup.binds:
                    if (alias or "").lower() == tn.lower():
                        found = True
                        for n in cn:
                            if n.lower() not in excl:
                                put(n, cc[n])
                if not found:
                    raise Unsupported("alias.* unknown alias %s" % tn)
            elif isinstance(e, exp.Alias):
                put(e.alias, self.expr(e.this, sc))
            elif isinstance(e, exp.Column):
                put(e.name, self.expr(e, sc))
            else:
                put(e.sql(dialect="duckdb"), self.expr(e, sc))
        return names, cols

    @staticmethod
    def _colname(x):
        if isinstance(x, exp.Column):
            return x.name
        if isinstance(x, exp.Identifier):
            return x.name
        return x.name

    def join(self, tuples, j, ctes, outer):
        alias, t = self.source(j.this, ctes, outer)
        right = self._tuples_of(alias, t)
        kind = (j.args.get("kind") or "").upper()
        side = (j.args.get("side") or "").upper()
        method = (j.args.get("method") or "").upper()
        if method and method not in ("",):
            raise Unsupported("join method %s" % method)
        on = j.args.get("on")
        using = j.args.get("using")

        def cond(l, r):
            tp = Tup(z3.And(l.present, r.present), l.binds + r.binds, l.ord + r.ord)
            if on is not None:
                return is_true(self.expr(on, Scope(self, tp, tp.present, outer)))
            if using:
                cs = []
                for u in using:
                    un = _name(u)
                    lv = Scope(self, l, l.present, outer).resolve(un)
                    rv = Scope(self, r, r.present, outer).resolve(un)
                    cs.append(is_true(self.cmp("=", lv, rv)))
                return z3.And(*cs)
            return TRUE
        if kind in ("SEMI", "ANTI"):
            out = []
            for l in tuples:
                ex = z3.Or(*[z3.And(r.present, cond(l, r)) for r in right]) if right else FALSE
                out.append(Tup(z3.And(l.present, ex if kind == "SEMI" else z3.Not(ex)), l.binds, l.ord))
            return out
        if using and side in ("LEFT", "RIGHT", "FULL", "") and kind != "CROSS":
            return self._join_using(tuples, right, alias, t, using, side, cond)
        out = []
        match = {}
        for li, l in enumerate(tuples):
            for ri, r in enumerate(right):
                c = z3.And(l.present, r.present, cond(l, r)) if kind != "CROSS" else z3.And(l.present, r.present)
                match[(li, ri)] = c
                out.append(Tup(c, l.binds + r.binds, l.ord + r.ord))
        if side in ("LEFT", "FULL"):
            nb = self._null_bind(alias, t)
            for li, l in enumerate(tuples):
                un = z3.And(l.present, *[z3.Not(match[(li, ri)]) for ri in range(len(right))])
                out.append(Tup(un, l.binds + [nb], l.ord + [z3.IntVal(-1)]))
        if side in ("RIGHT", "FULL"):
            if not tuples:
                raise Unsupported("outer join with empty left")
            lnb = [self._null_bind_from(b) for b in tuples[0].binds]
            for ri, r in enumerate(right):
                un = z3.And(r.present, *[z3.Not(match[(li, ri)]) for li in range(len(tuples))])
                out.append(Tup(un, lnb + r.binds, [z3.IntVal(-1)] * len(tuples[0].ord) + r.ord))
        if side not in ("", "LEFT", "RIGHT", "FULL", "INNER"):
            raise Unsupported("join side %s" % side)
        return out

    def _null_bind_from(self, bind):
        alias, cn, cc = bind
        cols = {}
        for c in cn:
            sv = cc[c]
            cols[c] = NULL() if sv.kind == "null" else (SV("struct", TRUE, None, sv.fields) if sv.kind == "struct" else NULL(sv.kind))
        return (alias, cn, cols)

    def _join_using(self, tuples, right, alias, t, using, side, cond):
        """JOIN ... USING (cols): the USING columns appear once in `*` (COALESCE(l, r) for outer joins)."""
        ucols = [_name(u) for u in using]
        out = []
        match = {}

        def merged(l, r, lp, rp):
            # binding list: a synthetic leading binding with the merged USING columns, then the
            # remaining columns of each side under their aliases
            mcols = {}
            for u in ucols:
                lv = Scope(self, l, TRUE).resolve(u) if l is not None else None
                rv = Scope(self, r, TRUE).resolve(u) if r is not None else None
                if lv is not None and rv is not None:
                    mcols[u] = ite(z3.Not(lv.null), lv, rv) if side in ("FULL", "RIGHT") else lv
                else:
                    mcols[u] = lv if lv is not None else rv
            return mcols
        def strip(binds, qualified_keep=True):
            res = []
            for a, cn, cc in binds:
                res.append((a, [c for c in cn if c not in ucols], cc))   # cc keeps USING cols for alias.col refs
            return res
        nb = self._null_bind(alias, t)
        for li, l in enumerate(tuples):
            for ri, r in enumerate(right):
                c = z3.And(l.present, r.present, cond(l, r))
                match[(li, ri)] = c
                m = merged(l, r, l.present, r.present)
                out.append(Tup(c, [(None, ucols, m)] + strip(l.binds) + strip(r.binds), l.ord + r.ord))
        if side in ("LEFT", "FULL"):
            for li, l in enumerate(tuples):
                un = z3.And(l.present, *[z3.Not(match[(li, ri)]) for ri in range(len(right))])
                m = {u: Scope(self, l, TRUE).resolve(u) for u in ucols}
                out.append(Tup(un, [(None, ucols, m)] + strip(l.binds) + strip([nb]), l.ord + [z3.IntVal(-1)]))
        if side in ("RIGHT", "FULL"):
            lnb = [self._null_bind_from(b) for b in tuples[0].binds]
            for ri, r in enumerate(right):
                un = z3.And(r.present, *[z3.Not(match[(li, ri)]) for li in range(len(tuples))])
                m = {u: Scope(self, r, TRUE).resolve(u) for u in ucols}
                out.append(Tup(un, [(None, ucols, m)] + strip(lnb) + strip(r.binds), [z3.IntVal(-1)] * len(tuples[0].ord) + r.ord))
        return out

    # ------------------------------------------------------------------ scalars
    def expr(self, e, sc):
        m = getattr(self, "x_" + type(e).__name__, None)
        if m is None:
            raise Unsupported("SQL expression %s" % type(e).__name__)
        return m(e, sc)

    def x_Paren(self, e, sc):
        return self.expr(e.this, sc)

    def x_Column(self, e, sc):
        if e.args.get("db") or e.args.get("catalog"):
            raise Unsupported("qualified column")
        return sc.resolve(e.name, e.table or None)

    def x_Identifier(self, e, sc):
        return sc.resolve(e.name)

    def _extreme(self, e, sc, which):
        vals = [self.expr(a, sc) for a in [e.this] + list(e.expressions)]
        res = None
        for v in vals:
            if res is None:
                res = v
                continue
            a, b, k = unify(res, v)
            if k == "null":
                continue
            better = is_true(self.cmp("<" if which == "min" else ">", b, a))
            # DuckDB LEAST/GREATEST skip NULL arguments (NULL only when all are NULL)
            take = z3.And(z3.Not(b.null), z3.Or(a.null, better))
            res = ite(take, b, a)
        return res

    def x_Greatest(self, e, sc):
        return self._extreme(e, sc, "max")

    def x_Least(self, e, sc):
        return self._extreme(e, sc, "min")

    def x_Literal(self, e, sc):
        if e.is_string:
            return lit(e.this)
        s = e.this
        if "." in s or "e" in s.lower():
            return SV("real", FALSE, z3.RealVal(s))
        return lit(int(s))

    def x_Null(self, e, sc):
        return NULL()

    def x_Boolean(self, e, sc):
        return lit(bool(e.this))

    def x_Neg(self, e, sc):
        a = self.expr(e.this, sc)
        if a.kind == "null":
            return a
        if a.kind not in ("int", "real"):
            raise Unsupported("neg %s" % a.kind)
        if a.kind == "int":
            self._overflow(sc, a.null, -a.val, "negation")
        return SV(a.kind, a.null, -a.val)

    def _overflow(self, sc, nl, val, what):
        """BIGINT arithmetic raises 'Out of Range Error: Overflow' when the result leaves the int64 range; only modelled when the
        inputs range over the whole BIGINT domain (opts int64) - under the usual small bound it cannot happen."""
        if getattr(self.ctx, "int64", False):
            self.ctx.error(z3.And(sc.guard, z3.Not(nl), z3.Or(val > 2 ** 63 - 1, val < -2 ** 63)), "duckdb:int64-overflow:" + what)

    def x_Not(self, e, sc):
        a = self.expr(e.this, sc)
        if a.kind == "null":
            return NULL("bool")
        if a.kind != "bool":
            raise Unsupported("NOT %s" % a.kind)
        return SV("bool", a.null, z3.Not(a.val))

    def x_And(self, e, sc):
        a = as_kind(self.expr(e.this, sc), "bool")
        b = as_kind(self.expr(e.expression, sc), "bool")
        fa, fb = z3.And(z3.Not(a.null), z3.Not(a.val)), z3.And(z3.Not(b.null), z3.Not(b.val))
        isf = z3.Or(fa, fb)
        return SV("bool", z3.And(z3.Not(isf), z3.Or(a.null, b.null)), z3.And(z3.Not(isf), a.val, b.val))

    def x_Or(self, e, sc):
        a = as_kind(self.expr(e.this, sc), "bool")
        b = as_kind(self.expr(e.expression, sc), "bool")
        ta, tb = z3.And(z3.Not(a.null), a.val), z3.And(z3.Not(b.null), b.val)
        ist = z3.Or(ta, tb)
        return SV("bool", z3.And(z3.Not(ist), z3.Or(a.null, b.null)), ist)

    def arith(self, op, a, b, sc):
        if a.kind == "null" and b.kind == "null":
            return NULL()
        if "date" in (a.kind, b.kind):
            raise Unsupported("date arithmetic")
        a, b, k = unify(a, b)
        if k not in ("int", "real"):
            raise Unsupported("arith on %s" % k)
        nl = z3.Or(a.null, b.null)
        if op in "+-*" and k == "int":
            res = a.val + b.val if op == "+" else a.val - b.val if op == "-" else a.val * b.val
            self._overflow(sc, nl, res, {"+": "addition", "-": "subtraction", "*": "multiplication"}[op])
            return SV(k, nl, res)
        if op == "+":
            return SV(k, nl, a.val + b.val)
        if op == "-":
            return SV(k, nl, a.val - b.val)
        if op == "*":
            return SV(k, nl, a.val * b.val)
        if op == "/":
            ar, br = as_kind(a, "real"), as_kind(b, "real")
            # DuckDB: x / 0 = +-inf / nan for DOUBLE (no theory): flagged as a 'nonfinite' event
            self.ctx.error(z3.And(sc.guard, z3.Not(nl), br.val == 0), "nonfinite:div0")
            return SV("real", nl, ar.val / br.val)
        if op == "%":
            if k == "int":
                # DuckDB: truncated remainder (sign of the dividend); x % 0 = NULL
                q = z3.If(b.val == 0, z3.IntVal(0), self._trunc_div(a.val, b.val))
                return SV("int", z3.Or(nl, b.val == 0), a.val - b.val * q)
            f = self.ctx.uf("fmod", z3.RealSort(), z3.RealSort(), z3.RealSort())
            return SV("real", z3.Or(nl, b.val == 0), f(a.val, b.val))
        raise Unsupported("arith op %s" % op)

    @staticmethod
    def _trunc_div(a, b):
        # truncation toward zero, b != 0
        q = a / b  # z3 Int division: floor for b>0, ceil for b<0 (Euclidean: remainder >= 0)
        r = a - b * q
        # Euclidean -> truncated: adjust when a < 0 and r != 0
        return z3.If(z3.And(a < 0, r != 0), z3.If(b > 0, q + 1, q - 1), q)

    def x_Add(self, e, sc):
        return self._binary_arith("+", e, sc)

    def x_Sub(self, e, sc):
        return self._binary_arith("-", e, sc)

    def x_Mul(self, e, sc):
        return self.arith("*", self.expr(e.this, sc), self.expr(e.expression, sc), sc)

    def x_Div(self, e, sc):
        return self.arith("/", self.expr(e.this, sc), self.expr(e.expression, sc), sc)

    def x_Mod(self, e, sc):
        return self.arith("%", self.expr(e.this, sc), self.expr(e.expression, sc), sc)

    def x_IntDiv(self, e, sc):
        a, b = self.expr(e.this, sc), self.expr(e.expression, sc)
        a, b, k = unify(a, b)
        if k != "int":
            raise Unsupported("// on %s" % k)
        nl = z3.Or(a.null, b.null, b.val == 0)
        return SV("int", nl, z3.If(b.val == 0, z3.IntVal(0), self._trunc_div(a.val, b.val)))

    def _binary_arith(self, op, e, sc):
        if isinstance(e.expression, exp.Interval):
            return self.date_arith(op, e, self.expr(e.this, sc), None, sc)
        a, b = self.expr(e.this, sc), self.expr(e.expression, sc)
        if "date" in (a.kind, b.kind) or isinstance(e.expression, exp.Interval) or isinstance(e.this, exp.Interval):
            return self.date_arith(op, e, a, b, sc)
        return self.arith(op, a, b, sc)

    def date_arith(self, op, e, a, b, sc):
        raise Unsupported("date arithmetic")

    def cmp(self, op, a, b):
        a, b, k = unify(a, b)
        if k == "null":
            return NULL("bool")
        nl = z3.Or(a.null, b.null)
        if k == "struct":
            raise Unsupported("struct comparison")
        if op == "=":
            v = a.val == b.val
        elif op == "<>":
            v = a.val != b.val
        else:
            if k == "bool":
                ai, bi = z3.If(a.val, 1, 0), z3.If(b.val, 1, 0)
            else:
                ai, bi = a.val, b.val
            if k == "str":
                v = {"<": ai < bi, "<=": ai <= bi, ">": bi < ai, ">=": bi <= ai}[op]
            else:
                v = {"<": ai < bi, "<=": ai <= bi, ">": ai > bi, ">=": ai >= bi}[op]
        return SV("bool", nl, v)

    def x_EQ(self, e, sc):
        return self.cmp("=", self.expr(e.this, sc), self.expr(e.expression, sc))

    def x_NEQ(self, e, sc):
        return self.cmp("<>", self.expr(e.this, sc), self.expr(e.expression, sc))

    def x_GT(self, e, sc):
        return self.cmp(">", self.expr(e.this, sc), self.expr(e.expression, sc))

    def x_GTE(self, e, sc):
        return self.cmp(">=", self.expr(e.this, sc), self.expr(e.expression, sc))

    def x_LT(self, e, sc):
        return self.cmp("<", self.expr(e.this, sc), self.expr(e.expression, sc))

    def x_LTE(self, e, sc):
        return self.cmp("<=", self.expr(e.this, sc), self.expr(e.expression, sc))

    def x_NullSafeEQ(self, e, sc):
        return SV("bool", FALSE, same(self.expr(e.this, sc), self.expr(e.expression, sc)))

    def x_NullSafeNEQ(self, e, sc):
        return SV("bool", FALSE, z3.Not(same(self.expr(e.this, sc), self.expr(e.expression, sc))))

    def x_Is(self, e, sc):
        a = self.expr(e.this, sc)
        r = e.expression
        if isinstance(r, exp.Null):
            return SV("bool", FALSE, a.null)
        if isinstance(r, exp.Boolean):
            a = as_kind(a, "bool")
            return SV("bool", FALSE, z3.And(z3.Not(a.null), a.val == z3.BoolVal(bool(r.this))))
        raise Unsupported("IS %s" % type(r).__name__)

    def x_Between(self, e, sc):
        x = self.expr(e.this, sc)
        lo = self.expr(e.args["low"], sc)
        hi = self.expr(e.args["high"], sc)
        return self._and3(self.cmp(">=", x, lo), self.cmp("<=", x, hi))

    @staticmethod
    def _and3(a, b):
        fa, fb = z3.And(z3.Not(a.null), z3.Not(a.val)), z3.And(z3.Not(b.null), z3.Not(b.val))
        isf = z3.Or(fa, fb)
        return SV("bool", z3.And(z3.Not(isf), z3.Or(a.null, b.null)), z3.And(z3.Not(isf), a.val, b.val))

    @staticmethod
    def _or3(a, b):
        ta, tb = z3.And(z3.Not(a.null), a.val), z3.And(z3.Not(b.null), b.val)
        ist = z3.Or(ta, tb)
        return SV("bool", z3.And(z3.Not(ist), z3.Or(a.null, b.null)), ist)

    def x_In(self, e, sc):
        x = self.expr(e.this, sc)
        if e.args.get("query") is not None or e.args.get("unnest") is not None:
            raise Unsupported("IN subquery")
        res = SV("bool", FALSE, FALSE)
        for v in e.expressions:
            res = self._or3(res, self.cmp("=", x, self.expr(v, sc)))
        if x.kind == "null":
            return NULL("bool")
        return SV("bool", z3.Or(res.null, x.null), res.val)

    def x_Case(self, e, sc):
        base = e.this
        taken = FALSE
        branches = []
        for br in e.args["ifs"]:
            g0 = sc.with_guard(z3.Not(taken))
            if base is not None:
                c = is_true(self.cmp("=", self.expr(base, g0), self.expr(br.this, g0)))
            else:
                c = is_true(self.expr(br.this, g0))
            here = z3.And(z3.Not(taken), c)
            v = self.expr(br.args["true"], sc.with_guard(here))
            branches.append((here, v))
            taken = z3.Or(taken, c)
            if z3.is_true(z3.simplify(taken)):
                break       # a branch that is always taken: the remaining branches are dead code (DuckDB folds them away as well)
        d = e.args.get("default")
        res = self.expr(d, sc.with_guard(z3.Not(taken))) if (d is not None and not z3.is_true(z3.simplify(taken))) else NULL()
        for here, v in reversed(branches):
            res = ite(here, v, res)
        return res

    def x_If(self, e, sc):
        c = is_true(self.expr(e.this, sc))
        a = self.expr(e.args["true"], sc.with_guard(c))
        f = e.args.get("false")
        b = self.expr(f, sc.with_guard(z3.Not(c))) if f is not None else NULL()
        return ite(c, a, b)

    def x_Coalesce(self, e, sc):
        args = [e.this] + list(e.expressions)
        vals = []
        prev_null = TRUE
        for a in args:
            v = self.expr(a, sc.with_guard(prev_null))
            vals.append(v)
            prev_null = z3.And(prev_null, v.null)
        res = vals[-1]
        for v in reversed(vals[:-1]):
            res = ite(z3.Not(v.null), v, res)
        return res

    def x_Nullif(self, e, sc):
        a, b = self.expr(e.this, sc), self.expr(e.expression, sc)
        eq = is_true(self.cmp("=", a, b))
        return SV(a.kind, z3.Or(a.null, eq), a.val, a.fields)

    def x_Cast(self, e, sc, try_=False):
        a = self.expr(e.this, sc)
        to = e.args["to"]
        tn = to.this.name if hasattr(to.this, "name") else str(to.this)
        tn = tn.upper()
        if tn == "USERDEFINED":
            tn = str(to.args.get("kind") or "").upper()
        return self.cast(a, tn, sc, try_, to)

    def x_TryCast(self, e, sc):
        return self.x_Cast(e, sc, try_=True)

    def cast(self, a, tn, sc, try_, to=None):
        INTS = ("BIGINT", "INT", "INTEGER", "HUGEINT", "SMALLINT", "TINYINT")
        REALS = ("DOUBLE", "FLOAT", "REAL", "DECIMAL")
        if a.kind == "null":
            k = "int" if tn in INTS else "real" if tn in REALS else "bool" if tn == "BOOLEAN" else \
                "str" if tn in ("VARCHAR", "TEXT") else "date" if tn in ("DATE", "TIMESTAMP") else None
            if k is None:
                return a
            return NULL(k)
        if tn in INTS:
            if a.kind == "int":
                return a
            if a.kind == "bool":
                return SV("int", a.null, z3.If(a.val, 1, 0))
            if a.kind == "real":
                if getattr(self.ctx, "int64", False) and sc is not None:
                    self.ctx.error(z3.And(sc.guard, z3.Not(a.null), z3.Or(a.val >= 2 ** 63, a.val < -2 ** 63)), "duckdb:double-to-int64-range")
                # DOUBLE -> BIGINT rounds half to even (probed); encoded exactly
                fl = z3.ToInt(a.val)
                frac = a.val - z3.ToReal(fl)
                r = z3.If(frac < 0.5, fl, z3.If(frac > 0.5, fl + 1, z3.If(fl % 2 == 0, fl, fl + 1)))
                return SV("int", a.null, r)
            if a.kind == "str":
                return self.cast_str_int(a, sc, try_)
        if tn in REALS:
            if a.kind == "int" and tn in ("DOUBLE", "FLOAT", "REAL"):
                return SV("real", a.null, int_to_double(self.ctx, a.val), dc=a.dc)
            if a.kind in ("int", "real"):
                return as_kind(a, "real")
            if a.kind == "bool":
                return SV("real", a.null, z3.If(a.val, z3.RealVal(1), z3.RealVal(0)))
            if a.kind == "str":
                f = self.ctx.uf("str_to_real", z3.StringSort(), z3.RealSort())
                return SV("real", a.null, f(a.val))
        if tn == "BOOLEAN":
            if a.kind == "bool":
                return a
            if a.kind == "int":
                return SV("bool", a.null, a.val != 0)
            if a.kind == "real":
                return SV("bool", a.null, a.val != 0)
            if a.kind == "str":
                f = self.ctx.uf("str_to_bool", z3.StringSort(), z3.BoolSort())
                return SV("bool", a.null, f(a.val))
        if tn in ("VARCHAR", "TEXT"):
            if a.kind == "str":
                return a
            if a.kind == "int":
                return SV("str", a.null, z3.IntToStr(a.val)) if False else SV("str", a.null, self.ctx.uf("int_to_str", z3.IntSort(), z3.StringSort())(a.val))
            if a.kind == "bool":
                return SV("str", a.null, z3.If(a.val, z3.StringVal("true"), z3.StringVal("false")))
            if a.kind == "real":
                return SV("str", a.null, self.ctx.uf("real_to_str", z3.RealSort(), z3.StringSort())(a.val))
            if a.kind == "date":
                return SV("str", a.null, self.ctx.uf("date_to_str", z3.IntSort(), z3.StringSort())(a.val))
        if tn in ("DATE", "TIMESTAMP"):
            if a.kind == "date":
                return a
            if a.kind == "str":
                return SV("date", a.null, self.ctx.uf("str_to_date", z3.StringSort(), z3.IntSort())(a.val))
        raise Unsupported("CAST %s -> %s" % (a.kind, tn))

    def cast_str_int(self, a, sc, try_):
        f = self.ctx.uf("str_to_int", z3.StringSort(), z3.IntSort())
        return SV("int", a.null, f(a.val))

    def x_DPipe(self, e, sc):
        a, b = self.expr(e.this, sc), self.expr(e.expression, sc)
        if a.kind == "null" or b.kind == "null":
            return NULL("str")
        a, b = self.to_str(a), self.to_str(b)
        return SV("str", z3.Or(a.null, b.null), z3.Concat(a.val, b.val))

    def to_str(self, a):
        if a.kind == "str":
            return a
        return self.cast(a, "VARCHAR", None, False)

    def x_Abs(self, e, sc):
        a = self.expr(e.this, sc)
        if a.kind == "null":
            return a
        if a.kind == "int":
            self._overflow(sc, a.null, -a.val, "abs")
        return SV(a.kind, a.null, z3.If(a.val >= 0, a.val, -a.val))

    def x_Ceil(self, e, sc):
        a = self.expr(e.this, sc)
        if a.kind == "null":
            return a
        if a.kind == "int":
            return SV("real", a.null, z3.ToReal(a.val))
        fl = z3.ToInt(a.val)
        return SV("real", a.null, z3.ToReal(z3.If(z3.ToReal(fl) == a.val, fl, fl + 1)))

    def x_Floor(self, e, sc):
        a = self.expr(e.this, sc)
        if a.kind == "null":
            return a
        if a.kind == "int":
            return SV("real", a.null, z3.ToReal(a.val))
        return SV("real", a.null, z3.ToReal(z3.ToInt(a.val)))

    def _uf1(self, name, a, out_kind=None, in_kind=None):
        from vt.sqlsmt.sym import SORTS
        if a.kind == "null":
            return NULL(out_kind or "null")
        if in_kind:
            a = as_kind(a, in_kind)
        ok = out_kind or a.kind
        f = self.ctx.uf(name, SORTS[a.kind](), SORTS[ok]())
        return SV(ok, a.null, f(a.val))

    def x_Replace(self, e, sc):
        a, b = self.expr(e.this, sc), self.expr(e.expression, sc)
        c = self.expr(e.args["replacement"], sc) if e.args.get("replacement") is not None else lit("")
        if "null" in (a.kind, b.kind, c.kind):
            return NULL("str")
        a, b, c = self.to_str(a), self.to_str(b), self.to_str(c)
        f = self.ctx.uf("replace", z3.StringSort(), z3.StringSort(), z3.StringSort(), z3.StringSort())
        return SV("str", z3.Or(a.null, b.null, c.null), f(a.val, b.val, c.val))

    def x_Bracket(self, e, sc):
        """string slice s[a:] / s[a:b] (1-based, inclusive) for a >= 1"""
        a = self.expr(e.this, sc)
        if len(e.expressions) != 1 or not isinstance(e.expressions[0], exp.Slice):
            raise Unsupported("bracket expression")
        sl = e.expressions[0]
        if a.kind == "null":
            return NULL("str")
        if a.kind != "str":
            raise Unsupported("slice of %s" % a.kind)
        lo = as_kind(self.expr(sl.this, sc), "int") if sl.this is not None else lit(1)
        if sl.expression is not None:
            raise Unsupported("slice with an upper bound")
        ok = lo.val >= 1
        v = z3.If(ok, z3.SubString(a.val, lo.val - 1, z3.Length(a.val)), self.ctx.uf("slice_corner", z3.StringSort(), z3.IntSort(), z3.StringSort())(a.val, lo.val))
        return SV("str", z3.Or(a.null, lo.null), v)

    def x_StrPosition(self, e, sc):
        """INSTR(s, pat): 1-based position of the first occurrence, 0 when there is none"""
        a, b = self.expr(e.this, sc), self.expr(e.args["substr"], sc)
        if e.args.get("position") is not None or e.args.get("occurrence") is not None:
            raise Unsupported("INSTR with position / occurrence")
        if "null" in (a.kind, b.kind):
            return NULL("int")
        a, b = self.to_str(a), self.to_str(b)
        return SV("int", z3.Or(a.null, b.null), z3.IndexOf(a.val, b.val, 0) + 1)

    def x_Upper(self, e, sc):
        return self._uf1("upper", self.expr(e.this, sc), "str", "str")

    def x_Lower(self, e, sc):
        return self._uf1("lower", self.expr(e.this, sc), "str", "str")

    def x_Trim(self, e, sc):
        pos = (e.args.get("position") or "").upper()
        if e.args.get("expression") is not None:
            raise Unsupported("TRIM chars")
        return self._uf1({"": "trim", "LEADING": "ltrim", "TRAILING": "rtrim"}.get(pos, "trim"), self.expr(e.this, sc), "str", "str")

    def x_Length(self, e, sc):
        a = self.expr(e.this, sc)
        if a.kind == "null":
            return NULL("int")
        a = self.to_str(a)
        return SV("int", a.null, z3.Length(a.val))

    def x_Exp(self, e, sc):
        return self._uf1("exp", self.expr(e.this, sc), "real", "real")

    def x_Ln(self, e, sc):
        a = self.expr(e.this, sc)
        if a.kind != "null":
            a = as_kind(a, "real")
            self.ctx.error(z3.And(sc.guard, z3.Not(a.null), a.val <= 0), "duckdb:ln-domain")
        return self._uf1("ln", a, "real", "real")

    def x_Sqrt(self, e, sc):
        a = self.expr(e.this, sc)
        if a.kind != "null":
            a = as_kind(a, "real")
            self.ctx.error(z3.And(sc.guard, z3.Not(a.null), a.val < 0), "duckdb:sqrt-domain")
        return self._uf1("sqrt", a, "real", "real")

    def _uf2(self, name, a, b, out_kind, in_kind):
        from vt.sqlsmt.sym import SORTS
        if a.kind == "null" or b.kind == "null":
            return NULL(out_kind)
        a, b = as_kind(a, in_kind), as_kind(b, in_kind)
        f = self.ctx.uf(name, SORTS[in_kind](), SORTS[in_kind](), SORTS[out_kind]())
        return SV(out_kind, z3.Or(a.null, b.null), f(a.val, b.val))

    def x_Pow(self, e, sc):
        return self._uf2("power", self.expr(e.this, sc), self.expr(e.expression, sc), "real", "real")

    def x_Log(self, e, sc):
        # sqlglot normalises LOG(base, x) into Log(this=base, expression=x) for duckdb
        b = self.expr(e.this, sc)
        x = e.args.get("expression")
        if x is None:
            return self._uf1("log10", b, "real", "real")
        xv = self.expr(x, sc)
        if xv.kind != "null" and b.kind != "null":
            xr, br = as_kind(xv, "real"), as_kind(b, "real")
            self.ctx.error(z3.And(sc.guard, z3.Not(xr.null), z3.Not(br.null), z3.Or(xr.val <= 0, br.val <= 0)), "duckdb:log-domain")
        return self._uf2("log", b, xv, "real", "real")

    def x_Round(self, e, sc):
        a = self.expr(e.this, sc)
        d = e.args.get("decimals")
        dv = self.expr(d, sc) if d is not None else lit(0)
        if a.kind == "null":
            return NULL("real")
        a = as_kind(a, "real")
        dv = as_kind(dv, "int")
        f = self.ctx.uf("round", z3.RealSort(), z3.IntSort(), z3.RealSort())
        return SV("real", z3.Or(a.null, dv.null), f(a.val, dv.val))

    def x_Trunc(self, e, sc):
        a = self.expr(e.this, sc)
        d = e.args.get("decimals")
        dv = self.expr(d, sc) if d is not None else lit(0)
        if a.kind == "null":
            return NULL("real")
        a = as_kind(a, "real")
        dv = as_kind(dv, "int")
        dval = z3.simplify(z3.If(dv.null, z3.IntVal(-99), dv.val))
        if z3.is_int_value(dval) and dval.as_long() == 0:
            return SV("real", a.null, z3.ToReal(trunc_real(a.val)))     # TRUNC(x) / TRUNC(x, 0): exact
        f = self.ctx.uf("trunc", z3.RealSort(), z3.IntSort(), z3.RealSort())
        return SV("real", z3.Or(a.null, dv.null), f(a.val, dv.val))

    def x_Substring(self, e, sc):
        s = self.expr(e.this, sc)
        st = self.expr(e.args["start"], sc) if e.args.get("start") is not None else lit(1)
        ln = self.expr(e.args["length"], sc) if e.args.get("length") is not None else None
        if s.kind == "null":
            return NULL("str")
        s = self.to_str(s)
        st = as_kind(st, "int")
        nl = z3.Or(s.null, st.null)
        # DuckDB SUBSTR(s, start[, len]) for start >= 1, len >= 0 (other corners: uninterpreted)
        if ln is None:
            ok = st.val >= 1
            v = z3.If(ok, z3.SubString(s.val, st.val - 1, z3.Length(s.val)),
                      self.ctx.uf("substr2_corner", z3.StringSort(), z3.IntSort(), z3.StringSort())(s.val, st.val))
            return SV("str", nl, v)
        ln = as_kind(ln, "int")
        ok = z3.And(st.val >= 1, ln.val >= 0)
        v = z3.If(ok, z3.SubString(s.val, st.val - 1, ln.val),
                  self.ctx.uf("substr3_corner", z3.StringSort(), z3.IntSort(), z3.IntSort(), z3.StringSort())(s.val, st.val, ln.val))
        return SV("str", z3.Or(nl, ln.null), v)

    def x_Anonymous(self, e, sc):
        name = str(e.this)
        return self.call(name, list(e.expressions), sc, e)

    def call(self, name, args, sc, node=None):
        lname = name.lower()
        if lname in self.macros:
            return self.macro(lname, args, sc)
        m = getattr(self, "f_" + lname, None)
        if m is None:
            raise Unsupported("function %s" % name)
        return m(args, sc)

    def macro(self, lname, args, sc):
        params, body = self.macros[lname]
        if len(params) != len(args):
            raise Unsupported("macro arity %s" % lname)
        if self.macro_depth > 12:
            raise Unsupported("macro recursion")
        vals = [self.expr(a, sc) for a in args]
        bind = (None, list(params), dict(zip(params, vals)))
        tp = Tup(sc.tup.present, [bind], sc.tup.ord)
        # macro bodies see only their parameters (plus nothing else): a fresh scope keeps the guard
        inner = Scope(self, tp, sc.guard, None)
        self.macro_depth += 1
        try:
            return self.expr(body, inner)
        finally:
            self.macro_depth -= 1

    def _list_items(self, node, sc):
        """[(member Bool, position Int, SV)] for list(col) in a grouped scope or list(col) OVER (...) in a row scope"""
        if isinstance(node, exp.ArrayAgg):
            if sc.members is None:
                raise Unsupported("list() outside a grouped scope")
            arg = node.this
            okeys = []
            if isinstance(arg, exp.Order):
                okeys = [(o.this, bool(o.args.get("desc")), o.args.get("nulls_first")) for o in arg.expressions]
                arg = arg.this
            rows = self._agg_rows(arg, sc)
            T = sc.tuples
            n = len(T)
            kv = [[self._agg_rows(k, sc)[j][1] for k, _, _ in okeys] for j in range(n)] if okeys else None

            def before(a, b):
                phys = lex_less(T[a].ord, T[b].ord)
                if not okeys:
                    return phys
                res = phys          # ties of the ORDER BY keys fall back to physical order
                for kx in reversed(range(len(okeys))):
                    desc, nf = okeys[kx][1], okeys[kx][2]
                    x, y, _k = unify(kv[a][kx], kv[b][kx])
                    if _k == "null":
                        continue
                    lt = is_true(self.cmp(">" if desc else "<", x, y))
                    nlt = z3.And(x.null, z3.Not(y.null)) if nf else z3.And(z3.Not(x.null), y.null)
                    less = z3.Or(nlt, z3.And(z3.Not(x.null), z3.Not(y.null), lt))
                    res = z3.Or(less, z3.And(same(x, y), res))
                return res
            items = []
            for j, (m, v) in enumerate(rows):
                pos = z3.Sum([z3.If(z3.And(rows[a][0], before(a, j)), 1, 0) for a in range(n) if a != j] or [z3.IntVal(0)])
                items.append((m, pos, v))
            return items
        if isinstance(node, exp.Window) and isinstance(node.this, exp.ArrayAgg):
            return self.x_Window(node, sc, want_list=True)
        raise Unsupported("list_reduce over %s" % type(node).__name__)

    def f_list_reduce(self, args, sc):
        items = self._list_items(args[0], sc)
        lam = args[1]
        if not isinstance(lam, exp.Lambda) or len(lam.expressions) != 2:
            raise Unsupported("list_reduce lambda")
        pa, px = lam.expressions[0].name, lam.expressions[1].name
        n = len(items)
        cnt = z3.Sum([z3.If(m, 1, 0) for m, _, _ in items]) if items else z3.IntVal(0)

        def at(t):
            res = None
            for m, p, v in items:
                res = v if res is None else ite(z3.And(m, p == t), v, res)
            return res
        if not items:
            return NULL()
        acc = at(0)
        for t in range(1, n):
            xt = at(t)
            bind = (None, [pa, px], {pa: acc, px: xt})
            tp = Tup(sc.tup.present, [bind], sc.tup.ord)
            new = self.expr(lam.this, Scope(self, tp, z3.And(sc.guard, t < cnt), sc))
            acc = ite(t < cnt, new, acc)
        return SV(acc.kind, z3.Or(cnt == 0, acc.null), acc.val, acc.fields)

    def f_error(self, args, sc):
        tag = "error"
        a = args[0]
        # the message prefix identifies the VTL error class
        first = a
        while isinstance(first, (exp.DPipe, exp.Paren)):
            first = first.this
        if isinstance(first, exp.Literal) and first.is_string:
            tag = "error:" + first.this[:40]
        self.ctx.error(sc.guard, tag)
        return NULL()

    def x_Subquery(self, e, sc):
        # scalar subquery
        t = self.query(e.this, None, sc)
        if len(t.cols) != 1:
            raise Unsupported("scalar subquery arity")
        c = t.cols[0]
        res = None
        for r in reversed(t.rows):
            v = r.cols[c]
            res = v if res is None else ite(r.present, v, res)
        if res is None:
            return NULL()
        anyp = z3.Or(*[r.present for r in t.rows])
        return SV(res.kind, z3.Or(z3.Not(anyp), res.null), res.val, res.fields)

    def x_Exists(self, e, sc):
        t = self.query(e.this, None, sc)
        return SV("bool", FALSE, z3.Or(*[r.present for r in t.rows]) if t.rows else FALSE)

    # ------------------------------------------------------------------ aggregates
    def _agg_rows(self, arg, sc, filt=None):
        """[(member Bool, SV)] over the tuples of the current group."""
        if sc.members is None:
            raise Unsupported("aggregate outside a grouped scope")
        out = []
        for j, m in enumerate(sc.members):
            sj = sc.at(j)
            sj.guard = z3.And(sc.guard, m)
            if filt is not None:
                m = z3.And(m, is_true(self.expr(filt, sj)))
            v = self.expr(arg, sj) if arg is not None else None
            out.append((m, v))
        return out

    def agg(self, fn, rows, distinct=False):
        """fn over [(member, SV)] - nulls ignored."""
        vals = [(z3.And(m, z3.Not(v.null)), v) for m, v in rows]
        kinds = {v.kind for _, v in vals} - {"null"}
        if not kinds:
            if fn == "count":
                return lit(0)
            return NULL()
        if kinds == {"int", "real"}:
            vals = [(m, as_kind(v, "real")) for m, v in vals]
            kinds = {"real"}
        if len(kinds) != 1:
            raise Unsupported("aggregate kinds %s" % kinds)
        k = next(iter(kinds))
        vals = [(m if v.kind != "null" else FALSE, as_kind(v, k)) for m, v in vals]
        if distinct:
            nv = []
            for i, (m, v) in enumerate(vals):
                dup = [z3.And(vals[j][0], vals[j][1].val == v.val) for j in range(i)]
                nv.append((z3.And(m, *[z3.Not(d) for d in dup]), v))
            vals = nv
        cnt = z3.Sum([z3.If(m, 1, 0) for m, _ in vals]) if vals else z3.IntVal(0)
        none = z3.Not(z3.Or(*[m for m, _ in vals])) if vals else TRUE
        if fn == "count":
            return SV("int", FALSE, cnt)
        if fn == "sum":
            if k not in ("int", "real"):
                raise Unsupported("SUM %s" % k)
            zero = z3.IntVal(0) if k == "int" else z3.RealVal(0)
            return SV(k, none, z3.Sum([z3.If(m, v.val, zero) for m, v in vals]))
        if fn == "avg":
            if k not in ("int", "real"):
                raise Unsupported("AVG %s" % k)
            s = z3.Sum([z3.If(m, z3.ToReal(v.val) if k == "int" else v.val, z3.RealVal(0)) for m, v in vals])
            return SV("real", none, s / z3.ToReal(z3.If(cnt == 0, 1, cnt)))
        if fn in ("min", "max"):
            res = None
            for m, v in vals:
                if res is None:
                    res = (m, v.val)
                    continue
                hm, hv = res
                if k == "bool":
                    better = (z3.And(z3.Not(v.val), hv)) if fn == "min" else z3.And(v.val, z3.Not(hv))
                elif k == "str":
                    better = (v.val < hv) if fn == "min" else (hv < v.val)
                else:
                    better = (v.val < hv) if fn == "min" else (v.val > hv)
                take = z3.And(m, z3.Or(z3.Not(hm), better))
                res = (z3.Or(hm, m), z3.If(take, v.val, hv))
            return SV(k, none, res[1])
        if fn in ("bool_and", "bool_or"):
            if fn == "bool_and":
                return SV("bool", none, z3.And(*[z3.Or(z3.Not(m), v.val) for m, v in vals]))
            return SV("bool", none, z3.Or(*[z3.And(m, v.val) for m, v in vals]))
        if fn == "median":
            if k not in ("int", "real"):
                raise Unsupported("MEDIAN %s" % k)
            rv = [(m, z3.ToReal(v.val) if k == "int" else v.val) for m, v in vals]
            # x is the median (interpolated) : fresh witness constrained by counting
            med = self.ctx.fresh("median", z3.RealSort())
            n = len(rv)
            # lower middle L and upper middle U as witnesses among members
            lo = self.ctx.fresh("medlo", z3.RealSort())
            hi = self.ctx.fresh("medhi", z3.RealSort())
            below = lambda x: z3.Sum([z3.If(z3.And(m, v < x), 1, 0) for m, v in rv])  # noqa: E731
            atmost = lambda x: z3.Sum([z3.If(z3.And(m, v <= x), 1, 0) for m, v in rv])  # noqa: E731
            # k-th smallest (0-based): value x in members with below(x) <= k < atmost(x)
            kl = (cnt - 1) / 2
            ku = cnt / 2
            self.ctx.assume.append(z3.Implies(z3.Not(none), z3.And(
                z3.Or(*[z3.And(m, v == lo) for m, v in rv]), below(lo) <= kl, kl < atmost(lo),
                z3.Or(*[z3.And(m, v == hi) for m, v in rv]), below(hi) <= ku, ku < atmost(hi),
                med == (lo + hi) / 2)))
            return SV("real", none, med)
        if fn in ("var_pop", "var_samp", "stddev_pop", "stddev_samp"):
            if k not in ("int", "real"):
                raise Unsupported("%s %s" % (fn, k))
            return variance_symbol(self.ctx, fn, [(m, z3.ToReal(v.val) if k == "int" else v.val) for m, v in vals], cnt, none)
        raise Unsupported("aggregate %s" % fn)

    def _agg_node(self, e, sc, fn, arg=None, filt=None):
        a = e.this if arg is None else arg
        distinct = False
        if isinstance(a, exp.Distinct):
            distinct = True
            if len(a.expressions) != 1:
                raise Unsupported("DISTINCT arity")
            a = a.expressions[0]
        if fn == "count" and isinstance(a, exp.Star):
            rows = self._agg_rows(None, sc, filt)
            return SV("int", FALSE, z3.Sum([z3.If(m, 1, 0) for m, _ in rows]) if rows else z3.IntVal(0))
        return self.agg(fn, self._agg_rows(a, sc, filt), distinct)

    def x_Filter(self, e, sc):
        inner = e.this
        wh = e.expression
        cond = wh.this if isinstance(wh, exp.Where) else wh
        name = self._aggname(inner)
        if name is None:
            raise Unsupported("FILTER on %s" % type(inner).__name__)
        return self._agg_node(inner, sc, name, filt=cond)

    def _aggname(self, n):
        m = {exp.Sum: "sum", exp.Avg: "avg", exp.Count: "count", exp.Min: "min", exp.Max: "max", exp.Median: "median",
             exp.StddevPop: "stddev_pop", exp.StddevSamp: "stddev_samp", exp.Stddev: "stddev_samp",
             exp.VariancePop: "var_pop", exp.Variance: "var_samp", exp.LogicalAnd: "bool_and", exp.LogicalOr: "bool_or"}
        for k, v in m.items():
            if type(n) is k:
                return v
        if isinstance(n, exp.Anonymous) and str(n.this).upper() in AGG_ANON:
            return str(n.this).lower()
        return None

    def x_Sum(self, e, sc):
        return self._agg_node(e, sc, "sum")

    def x_Avg(self, e, sc):
        return self._agg_node(e, sc, "avg")

    def x_Count(self, e, sc):
        return self._agg_node(e, sc, "count")

    def x_Min(self, e, sc):
        return self._agg_node(e, sc, "min")

    def x_Max(self, e, sc):
        return self._agg_node(e, sc, "max")

    def x_Median(self, e, sc):
        return self._agg_node(e, sc, "median")

    def x_StddevPop(self, e, sc):
        return self._agg_node(e, sc, "stddev_pop")

    def x_StddevSamp(self, e, sc):
        return self._agg_node(e, sc, "stddev_samp")

    def x_Stddev(self, e, sc):
        return self._agg_node(e, sc, "stddev_samp")

    def x_VariancePop(self, e, sc):
        return self._agg_node(e, sc, "var_pop")

    def x_Variance(self, e, sc):
        return self._agg_node(e, sc, "var_samp")

    def x_LogicalAnd(self, e, sc):
        return self._agg_node(e, sc, "bool_and")

    def x_LogicalOr(self, e, sc):
        return self._agg_node(e, sc, "bool_or")

    def _arg_minmax(self, e, sc, which):
        rows_v = self._agg_rows(e.this, sc)
        rows_k = self._agg_rows(e.expression, sc)
        # ARG_MIN(val, key): val of the row with the smallest non-null key
        best = None
        for (m, v), (_, kx) in zip(rows_v, rows_k):
            # DuckDB arg_min/arg_max ignore rows where the argument OR the ordering value is NULL
            mm = z3.And(m, z3.Not(kx.null), z3.Not(v.null))
            if best is None:
                best = (mm, kx, v)
                continue
            bm, bk, bv = best
            lt = self.cmp("<" if which == "min" else ">", kx, bk)
            take = z3.And(mm, z3.Or(z3.Not(bm), is_true(lt)))
            best = (z3.Or(bm, mm), ite(take, kx, bk), ite(take, v, bv))
        if best is None:
            return NULL()
        bm, bk, bv = best
        return SV(bv.kind, z3.Or(z3.Not(bm), bv.null), bv.val, bv.fields)

    def x_ArgMin(self, e, sc):
        return self._arg_minmax(e, sc, "min")

    def x_ArgMax(self, e, sc):
        return self._arg_minmax(e, sc, "max")

    # ------------------------------------------------------------------ windows
    def x_Window(self, e, sc, want_list=False):
        if sc.tuples is None or sc.idx is None:
            raise Unsupported("window outside a row scope")
        if sc.members is not None:
            raise Unsupported("window in grouped scope")
        i = sc.idx
        T = sc.tuples
        n = len(T)
        pby = e.args.get("partition_by") or []
        order = e.args.get("order")
        spec = e.args.get("spec")
        at = [sc.at(j) for j in range(n)]
        pk = [[self.expr(p, at[j]) for p in pby] for j in range(n)]
        part = [z3.And(T[j].present, *[same(pk[i][k], pk[j][k]) for k in range(len(pby))]) for j in range(n)]
        fn = e.this
        # ordering
        if order is not None:
            okeys = []
            for o in order.expressions:
                desc = bool(o.args.get("desc"))
                nf = o.args.get("nulls_first")
                okeys.append((o.this, desc, nf))
            ov = [[self.expr(k, at[j]) for k, _, _ in okeys] for j in range(n)]

            def before(a, b):
                """tuple a strictly precedes b in the window order"""
                res = FALSE
                for kx in reversed(range(len(okeys))):
                    desc, nf = okeys[kx][1], okeys[kx][2]
                    x, y = ov[a][kx], ov[b][kx]
                    x, y, _k = unify(x, y)
                    if _k == "null":
                        continue
                    lt = is_true(self.cmp(">" if desc else "<", x, y))
                    # NULL placement: DuckDB default NULLS LAST (both directions) unless NULLS FIRST
                    if nf:
                        nlt = z3.And(x.null, z3.Not(y.null))
                    else:
                        nlt = z3.And(z3.Not(x.null), y.null)
                    less = z3.Or(nlt, z3.And(z3.Not(x.null), z3.Not(y.null), lt))
                    eq = same(x, y)
                    res = z3.Or(less, z3.And(eq, res))
                return res

            def peer(a, b):
                return z3.And(*[same(ov[a][kx], ov[b][kx]) for kx in range(len(okeys))])
        else:
            def before(a, b):
                return lex_less(T[a].ord, T[b].ord) if isinstance(fn, exp.RowNumber) or True else FALSE

            def peer(a, b):
                return TRUE
        # position of each partition member (0-based) in the window order; ties broken by physical order
        def strictly(a, b):
            if order is None:
                return lex_less(T[a].ord, T[b].ord)
            return z3.Or(before(a, b), z3.And(peer(a, b), lex_less(T[a].ord, T[b].ord)))
        pos = [z3.Sum([z3.If(z3.And(part[a], strictly(a, j)), 1, 0) for a in range(n) if a != j] or [z3.IntVal(0)]) for j in range(n)]
        if isinstance(fn, exp.RowNumber):
            return SV("int", FALSE, pos[i] + 1)
        if isinstance(fn, exp.Rank):
            if order is None:
                return SV("int", FALSE, z3.IntVal(1))
            return SV("int", FALSE, 1 + z3.Sum([z3.If(z3.And(part[a], before(a, i)), 1, 0) for a in range(n) if a != i] or [z3.IntVal(0)]))
        if isinstance(fn, exp.DenseRank):
            raise Unsupported("DENSE_RANK")
        # frame
        frame = self._frame(spec, order, i, n, part, pos, before, peer, at, sc)
        if isinstance(fn, (exp.Lag, exp.Lead)):
            off = fn.args.get("offset")
            k = int(off.name) if off is not None else 1
            target = pos[i] - k if isinstance(fn, exp.Lag) else pos[i] + k
            res = NULL()
            hits = []
            for j in range(n):
                v = self.expr(fn.this, at[j])
                hit = z3.And(part[j], pos[j] == target)
                hits.append(hit)
                res = ite(hit, v, res) if res.kind != "null" or True else v
            if fn.args.get("default") is not None:
                # LAG(x, n, default): the default stands in only when there is no row at the offset (a row holding NULL stays NULL)
                dflt = self.expr(fn.args["default"], sc)
                res = ite(z3.Or(*hits) if hits else FALSE, res, dflt)
            return res
        if isinstance(fn, (exp.FirstValue, exp.LastValue)):
            res = NULL()
            for j in range(n):
                inf = z3.And(part[j], frame[j])
                if isinstance(fn, exp.FirstValue):
                    edge = z3.And(inf, *[z3.Not(z3.And(part[a], frame[a], pos[a] < pos[j])) for a in range(n) if a != j])
                else:
                    edge = z3.And(inf, *[z3.Not(z3.And(part[a], frame[a], pos[a] > pos[j])) for a in range(n) if a != j])
                res = ite(edge, self.expr(fn.this, at[j]), res)
            return res
        if want_list:
            # list(col) OVER (...): the frame members in window order (ties by physical order)
            fpos = [z3.Sum([z3.If(z3.And(part[a], frame[a], strictly(a, j)), 1, 0) for a in range(n) if a != j] or [z3.IntVal(0)]) for j in range(n)]
            return [(z3.And(part[j], frame[j]), fpos[j], self.expr(fn.this, at[j])) for j in range(n)]
        name = self._aggname(fn)
        if name is None:
            if isinstance(fn, exp.Anonymous) and str(fn.this).upper() == "RATIO_TO_REPORT":
                raise Unsupported("RATIO_TO_REPORT")
            raise Unsupported("window function %s" % type(fn).__name__)
        arg = fn.this if not isinstance(fn, exp.Anonymous) else (fn.expressions[0] if fn.expressions else None)
        if name == "count" and isinstance(arg, exp.Star):
            return SV("int", FALSE, z3.Sum([z3.If(z3.And(part[j], frame[j]), 1, 0) for j in range(n)]))
        rows = [(z3.And(part[j], frame[j]), self.expr(arg, at[j])) for j in range(n)]
        return self.agg(name, rows)

    def _frame(self, spec, order, i, n, part, pos, before, peer, at, sc):
        """-> list of Bool: tuple j is inside the frame of tuple i"""
        if spec is None:
            if order is None:
                return [TRUE] * n
            # default: RANGE BETWEEN UNBOUNDED PRECEDING AND CURRENT ROW (peers included)
            return [z3.Or(before(j, i), peer(j, i)) if j != i else TRUE for j in range(n)]
        kind = (spec.args.get("kind") or "ROWS").upper()
        start, start_side = spec.args.get("start"), (spec.args.get("start_side") or "").upper()
        end, end_side = spec.args.get("end"), (spec.args.get("end_side") or "").upper()
        if spec.args.get("exclude"):
            raise Unsupported("frame EXCLUDE")

        def off(x):
            if isinstance(x, str):
                return x.upper()
            if isinstance(x, exp.Literal):
                return int(x.name)
            if isinstance(x, exp.Var):
                return x.name.upper()
            return x
        s, t = off(start), off(end)
        if end is None:
            t, end_side = "CURRENT ROW", ""
        if kind == "ROWS":
            def lo_ok(j):
                if s == "UNBOUNDED":
                    return TRUE
                if s == "CURRENT ROW":
                    return pos[j] >= pos[i]
                return pos[j] >= (pos[i] - s if start_side == "PRECEDING" else pos[i] + s)

            def hi_ok(j):
                if t == "UNBOUNDED":
                    return TRUE
                if t == "CURRENT ROW":
                    return pos[j] <= pos[i]
                return pos[j] <= (pos[i] - t if end_side == "PRECEDING" else pos[i] + t)
            return [z3.And(lo_ok(j), hi_ok(j)) for j in range(n)]
        if kind == "RANGE":
            if order is None or len(order.expressions) != 1:
                if s == "UNBOUNDED" and t == "UNBOUNDED":
                    return [TRUE] * n
                raise Unsupported("RANGE frame needs one order key")
            o = order.expressions[0]
            desc = bool(o.args.get("desc"))
            kv = [self.expr(o.this, at[j]) for j in range(n)]

            def lo_ok(j):
                if s == "UNBOUNDED":
                    return TRUE
                if s == "CURRENT ROW":
                    return z3.Or(peer(j, i), before(i, j))
                d = s if isinstance(s, int) else None
                if d is None:
                    raise Unsupported("RANGE offset %r" % (s,))
                a, b = kv[j], kv[i]
                if a.kind not in ("int", "real") or b.kind not in ("int", "real"):
                    raise Unsupported("RANGE on %s" % a.kind)
                delta = -d if start_side == "PRECEDING" else d
                if desc:
                    delta = -delta
                bound = b.val + delta
                return z3.And(z3.Not(a.null), z3.Not(b.null), (a.val <= bound) if desc else (a.val >= bound))

            def hi_ok(j):
                if t == "UNBOUNDED":
                    return TRUE
                if t == "CURRENT ROW":
                    return z3.Or(peer(j, i), before(j, i))
                d = t if isinstance(t, int) else None
                if d is None:
                    raise Unsupported("RANGE offset %r" % (t,))
                a, b = kv[j], kv[i]
                if a.kind not in ("int", "real") or b.kind not in ("int", "real"):
                    raise Unsupported("RANGE on %s" % a.kind)
                delta = -d if end_side == "PRECEDING" else d
                if desc:
                    delta = -delta
                bound = b.val + delta
                return z3.And(z3.Not(a.null), z3.Not(b.null), (a.val >= bound) if desc else (a.val <= bound))
            return [z3.And(lo_ok(j), hi_ok(j)) if j != i else TRUE for j in range(n)]
        raise Unsupported("frame kind %s" % kind)


def load_macros(sql_texts):
    """CREATE [OR REPLACE] MACRO name(params) AS (body) -> {name: (params, body expr)} parsed by sqlglot from the
    repository's real SQL files; table macros and statements sqlglot cannot parse are skipped (listed)."""
    import re
    out, skipped = {}, []
    for text in sql_texts:
        # strip comments
        text = re.sub(r"--[^\n]*", "", text)
        for stmt in re.split(r";\s*(?=(?:CREATE|DROP)\b)", text, flags=re.I):
            m = re.match(r"\s*CREATE\s+(?:OR\s+REPLACE\s+)?MACRO\s+(\w+)\s*\((.*?)\)\s+AS\s+(.*)$", stmt.strip().rstrip(";"), flags=re.I | re.S)
            if not m:
                continue
            name, params, body = m.group(1), m.group(2), m.group(3).strip()
            if body.upper().startswith("TABLE"):
                skipped.append(name)
                continue
            ps = []
            for p in params.split(","):
                p = p.strip()
                if p:
                    ps.append(p.split()[0])
            try:
                b = parse_one("SELECT " + body, read="duckdb").expressions[0]
            except Exception:
                skipped.append(name)
                continue
            out[name.lower()] = (ps, b)
    return out, skipped


def variance_symbol(ctx, fn, rv, cnt, none):
    """var/stddev as shared symbols over (count, sum, sum of squares): linear for the solver; which datapoints enter
    the aggregate and the null rules are decided, the arithmetic of the variance itself is trusted."""
    R_, I_ = z3.RealSort(), z3.IntSort()
    sq = ctx.uf("sq", R_, R_)
    s_ = z3.Sum([z3.If(m, v, z3.RealVal(0)) for m, v in rv])
    q_ = z3.Sum([z3.If(m, sq(v), z3.RealVal(0)) for m, v in rv])
    samp = fn.endswith("samp")
    var = ctx.uf("var_samp" if samp else "var_pop", I_, R_, R_, R_)(cnt, s_, q_)
    nl = z3.Or(none, cnt <= 1) if samp else none
    if fn.startswith("var"):
        return SV("real", nl, var)
    return SV("real", nl, ctx.uf("sqrt", R_, R_)(var))
