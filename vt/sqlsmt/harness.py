"""Engine A driver: build a case from a hand-built AST through the REAL pipeline (DAG, semantic
analysis, SQLTranspiler), evaluate the emitted SQL symbolically, self-check the encoding against
real DuckDB on concrete tables, run solver queries and replay models through the real run()."""
import fractions
import math
import os
import random
import time

import z3

from vt.sqlsmt.sym import simp as _simp

from vt import boot

boot.boot()
import pandas as pd  # noqa: E402

from vt import realrun as R  # noqa: E402
from vt.sqlsmt import sqleval, sym  # noqa: E402
from vt.sqlsmt.sym import Ctx, Table, Unsupported, make_input, SV  # noqa: E402
from vt.sqlsmt.sym import FALSE as FALSE_  # noqa: E402

SQL_DIR = os.path.join(boot.SRC, "vtlengine", "duckdb_transpiler", "sql")
_MACROS = None


def macros():
    global _MACROS
    if _MACROS is None:
        texts = [open(os.path.join(SQL_DIR, f)).read() for f in ("init.sql", "time_operators.sql")]
        _MACROS = sqleval.load_macros(texts)
    return _MACROS


DUCK_TYPES = {"Integer": "BIGINT", "Number": "DOUBLE", "String": "VARCHAR", "Boolean": "BOOLEAN", "Date": "TIMESTAMP",
              "Time_Period": "VARCHAR", "Time": "VARCHAR", "Duration": "VARCHAR"}


class Case:
    """One script template + input structures + bound."""

    def __init__(self, cid, ast, structs, nrows=2, scalars=None, scalar_values=None, evaluator_cls=None, opts=None):
        self.cid, self.ast, self.structs, self.nrows = cid, ast, structs, nrows
        self.scalars = scalars or []
        self.scalar_values = scalar_values or {}
        self.evaluator_cls = evaluator_cls or sqleval.Evaluator
        self.opts = opts or {}
        self.ctx = None

    def build(self):
        st = R.structures(*self.structs, scalars=self.scalars or None)
        self.struct_dict = st
        self.pipe = R.Pipeline(self.ast, st, scalar_values=self.scalar_values, tp_format=self.opts.get("tp_format", "vtl"))
        self.ctx = ctx = Ctx()
        if self.opts.get("years"):
            ctx.year_range = tuple(self.opts["years"])
        if self.opts.get("int64"):
            ctx.int64 = True
            self.opts.setdefault("int_bound", 2 ** 63)
        used = set()
        for name, sql, _ in self.pipe.queries:
            try:
                used |= {t.name for t in sqleval.parse(sql).find_all(sqleval.exp.Table)}
            except Exception:  # not parseable: fall back to a textual scan
                used |= {s_["name"] for s_ in self.structs if '"%s"' % s_["name"] in sql}
        # every dataset the script names is an input too (the SQL may - wrongly - ignore an operand)
        names = {s_["name"] for s_ in self.structs}
        stack = [self.ast]
        seen = set()
        while stack:
            x = stack.pop()
            if id(x) in seen or x is None:
                continue
            seen.add(id(x))
            if isinstance(x, (list, tuple)):
                stack.extend(x)
            elif hasattr(x, "__dataclass_fields__"):
                if type(x).__name__ in ("VarID", "Identifier") and x.value in names:
                    used.add(x.value)
                stack.extend(getattr(x, f) for f in x.__dataclass_fields__)
        self.inputs = {}
        for s in self.structs:
            if s["name"] not in used and not self.opts.get("all_inputs"):
                continue
            comps = [(c["name"], c["type"], c["role"], c["nullable"]) for c in s["DataStructure"]]
            n = self.nrows[s["name"]] if isinstance(self.nrows, dict) else self.nrows
            self.inputs[s["name"]] = make_input(ctx, s["name"], comps, n, int_bound=self.opts.get("int_bound", 2 ** 20),
                                                str_maxlen=self.opts.get("str_maxlen", 2))
        if self.opts.get("ind"):
            # shard: every Time_Period input has this indicator (one solver query per indicator)
            for v in ctx.input_vars:
                if str(v).endswith(".ind"):
                    ctx.assume.append(v == z3.StringVal(self.opts["ind"]))
        if self.opts.get("iv_class"):
            # shard: every Time input is an interval of this shape (a whole period of one indicator, or none of them)
            from vt.sqlsmt import cal as _cal
            for name_, t_ in self.inputs.items():
                for r_ in t_.rows:
                    for cn_, ty_, role_, nl_ in t_.comps:
                        if r_.cols[cn_].kind != "iv":
                            continue
                        i_ = t_.rows.index(r_)
                        y1, m1, c1, y2, m2, c2 = [z3.Int("%s.%s.%d.%s" % (name_, cn_, i_, f)) for f in ("y1", "m1", "c1", "y2", "m2", "c2")]
                        d1, d2 = r_.cols[cn_].fields["d1"].val, r_.cols[cn_].fields["d2"].val
                        shapes = {
                            "D": z3.And(y1 == y2, m1 == m2, c1 == c2),
                            "A": z3.And(y1 == y2, m1 == 1, c1 == 1, m2 == 12, c2 == 31),
                            "S": z3.And(y1 == y2, c1 == 1, z3.Or(z3.And(m1 == 1, m2 == 6, c2 == 30), z3.And(m1 == 7, m2 == 12, c2 == 31))),
                            "Q": z3.And(y1 == y2, c1 == 1, z3.Or(m1 == 1, m1 == 4, m1 == 7, m1 == 10), m2 == m1 + 2, c2 == _cal.dim(y2, m2)),
                            "M": z3.And(y1 == y2, m1 == m2, c1 == 1, c2 == _cal.dim(y1, m1)),
                            "W": z3.And(_cal.weekday(d1) == 1, d2 == d1 + 6),
                        }
                        k_ = self.opts["iv_class"]
                        if k_ in shapes:
                            ctx.assume.append(shapes[k_])
                        else:
                            # X1 / X2 / X3: no period shape; same month / same year / different years
                            ctx.assume.append(z3.Not(z3.Or(*shapes.values())))
                            ctx.assume.append({"X1": z3.And(y1 == y2, m1 == m2), "X2": z3.And(y1 == y2, m1 != m2), "X3": y1 != y2}[k_])
                        # redundant theorems of the calendar (valid triples): the day number is injective and monotone in (y, m, c)
                        ctx.assume.append((d1 == d2) == z3.And(y1 == y2, m1 == m2, c1 == c2))
                        ctx.assume.append((d1 < d2) == z3.Or(y1 < y2, z3.And(y1 == y2, z3.Or(m1 < m2, z3.And(m1 == m2, c1 < c2)))))
                        if k_ == "W":
                            # the Monday d1 is the first day of ISO week (G, V): stated forward, so the ISO inverse is known
                            G, V = z3.Int("%s.%s.%d.G" % (name_, cn_, i_)), z3.Int("%s.%s.%d.V" % (name_, cn_, i_))
                            cx = _cal.Cal(None)
                            gy, gw = cx.iso(d1)
                            ctx.assume.append(z3.And(G >= y1 - 1, G <= y1 + 1, V >= 1, V <= _cal.weeks_in_year(G), d1 == _cal.date_from_iso(G, V, z3.IntVal(1)),
                                                     gy == G, gw == V))
        if self.opts.get("years"):
            lo, hi = self.opts["years"]
            for v in ctx.input_vars:
                if str(v).endswith(".year"):
                    ctx.assume.append(z3.And(v >= lo, v <= hi))
        return self

    def encode(self):
        ctx = self.ctx
        mac, self.macros_skipped = macros()
        self.ev = self.evaluator_cls(ctx, self.inputs, mac)
        self.results = {}
        for name, sql, pers in self.pipe.queries:
            t = self.ev.query(sqleval.parse(sql))
            self.ev.tables[name] = t
            self.results[name] = t
        return self

    def probe_real(self, seed=0, tries=3):
        """Run the real run() on random valid concrete inputs (used when the emitted SQL cannot be encoded):
        -> None, or dict describing a raw (non-VTL) failure."""
        import pandas as pd
        from vtlengine.Exceptions import VTLEngineException
        rng = random.Random(seed)
        for k in range(tries):
            asg, subs = self.random_assignment(rng)
            cin = self.concrete_inputs(lambda t, asg=asg: asg[t] if t in asg else _pyval(_simp(z3.substitute(t, *subs))))
            dfs = {}
            for name, t in self.inputs.items():
                cols = {}
                for cn, ty, role, nl in t.comps:
                    vals = [float(d[cn]) if isinstance(d[cn], fractions.Fraction) else d[cn] for d in cin[name]]
                    cols[cn] = pd.Series(vals, dtype=object)
                dfs[name] = pd.DataFrame(cols)
            try:
                R.run_ast(self.ast, self.struct_dict, dfs, **({"scalar_values": self.scalar_values} if self.scalar_values else {}))
            except VTLEngineException:
                continue
            except Exception as e:  # raw engine error
                return dict(inputs=_jsonable(cin), observed="raw %s: %s" % (type(e).__name__, str(e)[:300]), raw_error=True,
                            what="run() raised a raw (non-VTL) error", status="reproduced")
        return None

    # ------------------------------------------------------------------ concrete self-check
    def random_assignment(self, rng):
        """python values for every input variable satisfying the validity assumptions"""
        for _ in range(200):
            asg = {}
            for name, t in self.inputs.items():
                n = len(t.rows)
                perm = list(range(n))
                rng.shuffle(perm)
                for i, r in enumerate(t.rows):
                    asg[r.present] = rng.random() < 0.8
                    asg[r.ord[0]] = perm[i]
                    for cn, ty, role, nullable in t.comps:
                        sv = r.cols[cn]
                        if not z3.is_false(sv.null):
                            asg[sv.null] = rng.random() < 0.3
                        if sv.kind == "tp":
                            y, i_, n_ = self._rand_tp(rng, self.opts.get("ind"))
                            asg[sv.fields["year"].val], asg[sv.fields["ind"].val], asg[sv.fields["num"].val] = y, i_, n_
                        elif sv.kind == "iv":
                            a_, b_ = self._rand_iv(rng)
                            for f_, v_ in zip(("y1", "m1", "c1", "y2", "m2", "c2"), (a_.year, a_.month, a_.day, b_.year, b_.month, b_.day)):
                                asg[z3.Int("%s.%s.%d.%s" % (name, cn, i, f_))] = v_
                        else:
                            asg[sv.val] = self._rand_val(rng, "int64" if sv.kind == "int" and self.opts.get("int64") else sv.kind, role)
            subs = [(k, _z3val(k, v)) for k, v in asg.items()]
            ok = _simp(z3.substitute(z3.And(*self.ctx.assume), *subs)) if self.ctx.assume else z3.BoolVal(True)
            if z3.is_true(ok):
                return asg, subs
            if not z3.is_false(ok):
                # witnesses involved: ask the solver
                s = z3.Solver()
                s.add(z3.substitute(z3.And(*self.ctx.assume), *subs))
                if s.check() == z3.sat:
                    return asg, subs
        raise RuntimeError("no valid random assignment")

    @staticmethod
    def _rand_iv(rng):
        """interval: a whole period of some indicator, or an arbitrary pair of days (day numbers)"""
        import datetime
        y = rng.choice([2019, 2020, 2021, 2024])
        e = datetime.date(1970, 1, 1)
        dn = lambda d: d  # noqa: E731  (dates, not day numbers)
        k = rng.choice(["A", "S", "Q", "M", "W", "D", "x", "x"])
        if k == "A":
            return dn(datetime.date(y, 1, 1)), dn(datetime.date(y, 12, 31))
        if k == "S":
            s_ = rng.choice([1, 2])
            return (dn(datetime.date(y, 1, 1)), dn(datetime.date(y, 6, 30))) if s_ == 1 else (dn(datetime.date(y, 7, 1)), dn(datetime.date(y, 12, 31)))
        if k in ("Q", "M"):
            m = rng.choice([1, 4, 7, 10]) if k == "Q" else rng.choice([1, 2, 3, 6, 11, 12])
            m2 = m + (3 if k == "Q" else 1)
            end = (datetime.date(y + (m2 > 12), (m2 - 1) % 12 + 1, 1) - datetime.timedelta(days=1))
            return dn(datetime.date(y, m, 1)), dn(end)
        if k == "W":
            d = datetime.date(y, 1, 1) + datetime.timedelta(days=rng.choice([0, 3, 100, 360, 364]))
            d -= datetime.timedelta(days=d.weekday())
            return d, d + datetime.timedelta(days=6)
        d = datetime.date(y, rng.choice([1, 2, 6, 12]), rng.choice([1, 2, 15, 28]))
        return (d, d) if k == "D" else (d, d + datetime.timedelta(days=rng.choice([1, 6, 7, 29, 30, 89, 364, 365])))

    @staticmethod
    def _rand_tp(rng, ind=None):
        import datetime
        y = rng.choice([2019, 2020, 2020, 2021, 2024, 2015, 2016])
        i_ = ind or rng.choice(["A", "S", "Q", "M", "W", "D", "M", "W", "D"])
        if i_ == "A":
            n_ = 1
        elif i_ == "S":
            n_ = rng.choice([1, 2])
        elif i_ == "Q":
            n_ = rng.choice([1, 2, 3, 4])
        elif i_ == "M":
            n_ = rng.choice([1, 2, 6, 11, 12])
        elif i_ == "W":
            wk = datetime.date(y, 12, 28).isocalendar()[1]
            n_ = rng.choice([1, 2, 26, 51, 52, wk])
        else:
            dy = 366 if datetime.date(y, 12, 31).timetuple().tm_yday == 366 else 365
            n_ = rng.choice([1, 2, 59, 60, 61, 200, 364, 365, dy])
        return y, i_, n_

    @staticmethod
    def _rand_val(rng, kind, role):
        if kind == "int":
            return rng.choice([0, 1, 2, 3, -1, -2, 5, 7]) if role != "Identifier" else rng.choice([1, 2, 3])
        if kind == "int64":
            return rng.choice([0, 1, -1, 3, 2 ** 62, -2 ** 62, 2 ** 63 - 1, -2 ** 63, 2 ** 32, -2 ** 31, 3037000500]) if role != "Identifier" else rng.choice([1, 2, 3])
        if kind == "real":
            return fractions.Fraction(rng.choice([0, 1, 2, 3, -1, -3, 5, 9, 1, 4]), rng.choice([1, 1, 2, 4]))
        if kind == "bool":
            return rng.random() < 0.5
        if kind == "str":
            return rng.choice(["", "a", "b", "c", "ab", "ba", "cc"]) if role != "Identifier" else rng.choice(["a", "b", "c"])
        if kind == "date":
            return rng.choice([18262, 18263, 18290, 18291, 18321, 18322, 18627, 18628, 18992, 19000, 16800, 16435, 16436])
        raise Unsupported(kind)

    def concrete_inputs(self, value_of):
        """-> {name: list of row dicts in physical order}; value_of(z3 term) -> python value"""
        out = {}
        for name, t in self.inputs.items():
            rows = []
            for r in t.rows:
                if not value_of(r.present):
                    continue
                d = {}
                for cn, ty, role, nullable in t.comps:
                    sv = r.cols[cn]
                    if value_of(sv.null):
                        d[cn] = None
                    elif sv.kind == "tp":
                        d[cn] = render_tp(value_of(sv.fields["year"].val), value_of(sv.fields["ind"].val), value_of(sv.fields["num"].val))
                    elif sv.kind == "iv":
                        d[cn] = render_iv(value_of(sv.fields["d1"].val), value_of(sv.fields["d2"].val))
                    else:
                        d[cn] = value_of(sv.val)
                rows.append((value_of(r.ord[0]), d))
            rows.sort(key=lambda x: x[0])
            out[name] = [d for _, d in rows]
        return out

    def duckdb_run(self, cinputs):
        """Execute the emitted SQL chain on real DuckDB with the real macro library. -> {name: (cols, rows)} or ('error', msg)"""
        import duckdb
        from vtlengine.duckdb_transpiler.sql import initialize_time_types
        conn = duckdb.connect(config={"threads": 1})
        try:
            initialize_time_types(conn)
            for name, t in self.inputs.items():
                cols = ", ".join('"%s" %s' % (cn, DUCK_TYPES[ty]) for cn, ty, role, nl in t.comps)
                conn.execute('CREATE TABLE "%s" (%s)' % (name, cols))
                for d in cinputs[name]:
                    vals = []
                    for cn, ty, role, nl in t.comps:
                        v = d[cn]
                        if isinstance(v, fractions.Fraction):
                            v = float(v)
                        if ty == "Date" and v is not None:
                            v = _date_of(v)
                        vals.append(v)
                    conn.execute('INSERT INTO "%s" VALUES (%s)' % (name, ", ".join("?" * len(vals))), vals)
            res = {}
            for name, sql, pers in self.pipe.queries:
                try:
                    conn.execute('CREATE TABLE "%s" AS %s' % (name, sql))
                    cur = conn.execute('SELECT * FROM "%s"' % name)
                    res[name] = ([d[0] for d in cur.description], cur.fetchall())
                except duckdb.Error as e:
                    res[name] = ("error", str(e)[:300])
                    break
            return res
        finally:
            conn.close()

    def selfcheck(self, samples=6, seed=0, err_overapprox=False):
        """Compare the encoding with real DuckDB on random concrete tables.
        -> (n_compared_cells, n_skipped_uf_cells, mismatches list)"""
        rng = random.Random(seed)
        mism, cells, skipped = [], 0, 0
        for k in range(samples):
            asg, subs = self.random_assignment(rng)

            def value_of(term, asg=asg):
                return asg[term] if term in asg else _pyval(_simp(z3.substitute(term, *subs)))
            cin = self.concrete_inputs(value_of)
            real = self.duckdb_run(cin)
            err = _simp(z3.substitute(self.ctx.error_flag(lambda t: not t.startswith("nonfinite")), *subs))
            sym_err = z3.is_true(err)
            real_err = any(isinstance(v, tuple) and v[0] == "error" for v in real.values())
            if err_overapprox and sym_err and not real_err:
                # error events over-approximate: DuckDB evaluates projections lazily (a failing expression in a row that a later join /
                # filter / projection discards may never run); accepted only by the error-site analysis (C32), which confirms every site
                # on the real engine
                continue
            if sym_err != real_err:
                mism.append(dict(sample=k, inputs=_jsonable(cin), what="error flag: encoding %s, DuckDB %s" % (sym_err, [v for v in real.values() if v[0] == "error"])))
                continue
            if real_err:
                cells += 1
                continue
            for name, t in self.results.items():
                cols, rows = real[name]
                if list(cols) != list(t.cols):
                    mism.append(dict(sample=k, what="columns of %s: encoding %s, DuckDB %s" % (name, t.cols, cols)))
                    continue
                srows = []
                skip_cols = set()
                for r in t.rows:
                    p = _simp(z3.substitute(r.present, *subs))
                    if not (z3.is_true(p) or z3.is_false(p)):
                        p = self._solve_val(r.present, subs)
                    if not _truth(p):
                        continue
                    row = []
                    for c in t.cols:
                        sv = r.cols[c]
                        row.append(self._cell(sv, subs, skip_cols, c))
                    srows.append(tuple(row))
                keep = [i for i, c in enumerate(t.cols) if c not in skip_cols]
                skipped += len(skip_cols) * max(1, len(srows))
                a = sorted((tuple(_norm(r[i]) for i in keep) for r in srows), key=repr)
                b = sorted((tuple(_norm(r[i]) for i in keep) for r in rows), key=repr)
                cells += len(a) * len(keep) + 1
                if a != b:
                    mism.append(dict(sample=k, result=name, inputs=_jsonable(cin), encoding=_jsonable(a), duckdb=_jsonable(b)))
        return cells, skipped, mism

    def _cell(self, sv, subs, skip_cols, c):
        if sv.kind == "null":
            return None
        if sv.kind in ("struct", "sstr"):
            skip_cols.add(c)
            return None
        if sv.kind == "tp":
            nl = self._cell(SV("bool", FALSE_, sv.null), subs, skip_cols, c)
            if nl:
                return None
            parts = [self._cell(SV(k2, FALSE_, sv.fields[k].val), subs, skip_cols, c) for k, k2 in (("year", "int"), ("ind", "str"), ("num", "int"))]
            if c in skip_cols:
                return None
            if isinstance(parts[2], int) and parts[2] < 0:
                skip_cols.add(c)        # not a period spelling (marker value): nothing to render
                return None
            return render_tp(*parts)
        if sv.kind == "iv":
            nl = self._cell(SV("bool", FALSE_, sv.null), subs, skip_cols, c)
            if nl:
                return None
            parts = [self._cell(SV("int", FALSE_, sv.fields[k].val), subs, skip_cols, c) for k in ("d1", "d2")]
            if c in skip_cols:
                return None
            return render_iv(*parts)
        nl = _simp(z3.substitute(sv.null, *subs))
        if not (z3.is_true(nl) or z3.is_false(nl)):
            if _has_uf(nl):
                skip_cols.add(c)
                return None
            nl = self._solve_val(sv.null, subs)
        if _truth(nl):
            return None
        v = _simp(z3.substitute(sv.val, *subs))
        if not _is_value(v):
            if _has_uf(v):
                skip_cols.add(c)
                return None
            v = self._solve_val(sv.val, subs)
        return _pyval(v)

    def _solve_val(self, term, subs):
        s = z3.Solver()
        s.add(z3.substitute(z3.And(*self.ctx.assume), *subs))
        if s.check() != z3.sat:
            raise RuntimeError("assumptions unsat under concrete inputs")
        return s.model().eval(z3.substitute(term, *subs), model_completion=True)


def render_iv(d1, d2):
    return "%s/%s" % (_date_of(int(d1)).isoformat(), _date_of(int(d2)).isoformat())


def render_tp(y, i, n):
    """canonical internal spelling of a period triple"""
    if i == "A":
        return "%dA" % y
    w = {"S": 1, "Q": 1, "M": 2, "W": 2, "D": 3}.get(i, 1)
    return "%d-%s%0*d" % (y, i, w, n) if n >= 0 else "%d-%s%d" % (y, i, n)


def _has_uf(t):
    seen = set()
    stack = [t]
    while stack:
        x = stack.pop()
        if x.get_id() in seen:
            continue
        seen.add(x.get_id())
        if z3.is_app(x):
            if x.decl().kind() == z3.Z3_OP_UNINTERPRETED and x.num_args() > 0:
                return True
            stack.extend(x.children())
    return False


def _is_value(v):
    return z3.is_int_value(v) or z3.is_rational_value(v) or z3.is_true(v) or z3.is_false(v) or z3.is_string_value(v) or z3.is_algebraic_value(v)


def _truth(v):
    return z3.is_true(v)


def _z3val(var, v):
    s = var.sort()
    if s == z3.BoolSort():
        return z3.BoolVal(bool(v))
    if s == z3.IntSort():
        return z3.IntVal(int(v))
    if s == z3.RealSort():
        f = fractions.Fraction(v)
        return z3.RealVal("%d/%d" % (f.numerator, f.denominator))
    if s == z3.StringSort():
        return z3.StringVal(v)
    raise Unsupported(str(s))


def _pyval(v):
    if z3.is_true(v):
        return True
    if z3.is_false(v):
        return False
    if z3.is_int_value(v):
        return v.as_long()
    if z3.is_rational_value(v):
        return fractions.Fraction(v.numerator_as_long(), v.denominator_as_long())
    if z3.is_algebraic_value(v):
        return float(v.approx(20).as_fraction())
    if z3.is_string_value(v):
        return v.as_string()
    raise Unsupported("non-value %s" % v)


def _date_of(n):
    import datetime
    return datetime.date.fromordinal(n + 719163 - 18262 + (18262 - 18262)) if False else datetime.date(1970, 1, 1) + datetime.timedelta(days=n)


def _norm(v):
    import datetime
    import decimal
    if v is None:
        return None
    if isinstance(v, bool):
        return v
    if isinstance(v, (fractions.Fraction, decimal.Decimal)):
        v = float(v)
    if isinstance(v, int):
        return float(v)
    if isinstance(v, float):
        if math.isnan(v):
            return "nan"
        return round(v, 9) if abs(v) < 1e15 else v
    if isinstance(v, datetime.datetime):
        return float((v.date() - datetime.date(1970, 1, 1)).days)
    if isinstance(v, datetime.date):
        return float((v - datetime.date(1970, 1, 1)).days)
    return v


def _jsonable(x):
    if isinstance(x, dict):
        return {str(k): _jsonable(v) for k, v in x.items()}
    if isinstance(x, (list, tuple)):
        return [_jsonable(v) for v in x]
    if isinstance(x, fractions.Fraction):
        return float(x) if x.denominator != 1 else int(x)
    return x
