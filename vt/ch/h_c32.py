"""C32 harness (Engine B): every VTL macro a run references has been installed on the connection before it is used.

execute_queries installs only the closure of the macros named by the transpiled queries plus those needed to load time-typed inputs and to
render Time_Period results (initialize_time_types(conn, sql_fragments)).  A macro that is used but was not installed surfaces as a raw DuckDB
CatalogException.  Here the REAL execute_queries, load_scheduled_datasets, cleanup_scheduled_datasets, fetch_result,
apply_time_period_representation and initialize_time_types (with the real macro dependency closure over the real SQL files) run against a
recording connection; which inputs / results carry Time_Period components, which statement uses which macro, the output format, the persistent
flags and return_only_persistent are symbolic.

Stub contracts (part of the claim): loading an input with a Time_Period component executes one statement that calls vtl_period_normalize (what
_validate_loaded_table does); the connection answers schema probes with the declared columns as VARCHAR / BIGINT."""
import re

from vt import boot

boot.boot()
import pandas as pd  # noqa: E402
from vt.astb import assign, binop, start, var  # noqa: E402
from vtlengine.AST.DAG import DAGAnalyzer  # noqa: E402
from vtlengine.DataTypes import Integer, TimePeriod  # noqa: E402
from vtlengine.Model import Component, Dataset, Role  # noqa: E402
import vtlengine.duckdb_transpiler.io._execution as EX  # noqa: E402

MACROS = [None, "vtl_period_lt", "vtl_tp_shift", "vtl_period_parse", "vtl_date_to_period", "vtl_period_to_sdmx_reporting"]
FORMATS = ["vtl", "sdmx_reporting", "sdmx_gregorian", "natural"]
_CREATE = re.compile(r"CREATE\s+(?:OR\s+REPLACE\s+)?(?:MACRO|TYPE)\s+([A-Za-z_]\w*)", re.I)
_REF = re.compile(r"\bvtl_[a-z_][a-z0-9_]*\b")


_EMPTY = pd.DataFrame()


class Rel:
    def __init__(self, desc):
        self.description = desc

    def fetchdf(self):
        return _EMPTY

    def fetchone(self):
        return None


class Conn:
    def __init__(self, schemas):
        self.installed, self.missing, self.schemas = set(), [], schemas

    def execute(self, sql, *a, **k):
        # plain string scanning (no `re`: CrossHair interprets regular expressions in Python while tracing)
        names = _created(sql)
        if names:
            self.installed.update(names)
            return Rel(None)
        for r in _refs(sql):
            if r not in self.installed:
                self.missing.append((r, sql[:60]))
        if sql.startswith('SELECT * FROM "') and sql.endswith('" LIMIT 0'):
            return Rel([(c, "VARCHAR" if t == "tp" else "BIGINT") for c, t in self.schemas.get(sql[15:-9], [])])
        return Rel(None)


_IDCH = set("abcdefghijklmnopqrstuvwxyz0123456789_")


def _ident(s, i):
    j = i
    while j < len(s) and s[j].lower() in _IDCH:
        j += 1
    return s[i:j]


def _created(sql):
    out = []
    for chunk in sql.split("CREATE ")[1:]:
        if chunk.startswith("OR REPLACE "):
            chunk = chunk[11:]
        for kw in ("MACRO ", "TYPE "):
            if chunk.startswith(kw):
                out.append(_ident(chunk, len(kw)).lower())
    return out


def _refs(sql):
    out, i = [], sql.find("vtl_")
    while i >= 0:
        if i == 0 or sql[i - 1].lower() not in _IDCH:
            out.append(_ident(sql, i))
        i = sql.find("vtl_", i + 4)
    return out


def pick(i, n):
    for k in range(n):
        if i == k:
            return k
    raise IndexError(i)


def _ds(name, tp):
    comps = {"Id_1": Component(name="Id_1", data_type=Integer, role=Role.IDENTIFIER, nullable=False),
             "Me_1": Component(name="Me_1", data_type=TimePeriod if tp else Integer, role=Role.MEASURE, nullable=True)}
    return Dataset(name=name, components=comps, data=None)


_MEMO = {}
_REAL_INIT = EX.initialize_time_types


def _init_memo(conn, sql_fragments=None):
    """the REAL initialize_time_types, memoised on its (concrete) argument: the set of macros it installs is a function of the fragment list
    only, and interpreting its regular expressions under CrossHair's tracing costs ~1 s per call.  The memo is filled by real calls (at import
    for every fragment list the current execute_queries builds on the concrete combinations, on demand for any other)."""
    key = tuple(sql_fragments) if sql_fragments is not None else None
    if key not in _MEMO:
        c2 = Conn({})
        _REAL_INIT(c2, sql_fragments)
        _MEMO[key] = frozenset(c2.installed)
    conn.installed |= _MEMO[key]


_SCHED = {}


def _schedule(N, pers):
    """the real DAG schedule of N independent statements (depends on nothing symbolic: computed once, outside the traced paths)"""
    if (N, pers) not in _SCHED:
        stmts = [assign("O%d" % k, binop("+", var("G%d" % k), 1), persistent=pers[k]) for k in range(N)]
        ast = start(*stmts)
        DAGAnalyzer.create_dag(ast)
        _SCHED[(N, pers)] = DAGAnalyzer.ds_structure(ast)
    return _SCHED[(N, pers)]


def check(N, in_tp, out_tp, uses, fmt, pers, rop):
    """N statements O_k := G_k + 1.  in_tp[k] / out_tp[k]: input / result k has a Time_Period measure; uses[k]: index of the macro the
    statement's SQL calls (0 = none); fmt: output format index.  -> True iff no macro is referenced before it is installed."""
    fmt = FORMATS[pick(fmt, 4)]
    sched = _schedule(N, tuple(bool(p) for p in pers))
    queries = []
    for k in range(N):
        mac = MACROS[pick(uses[k], len(MACROS))]
        queries.append(("O%d" % k, 'SELECT "Id_1", %s AS "Me_1" FROM "G%d"' % (("%s(\"Me_1\")" % mac) if mac else '"Me_1"', k), bool(pers[k])))
    input_datasets = {"G%d" % k: _ds("G%d" % k, in_tp[k]) for k in range(N)}
    output_datasets = {"O%d" % k: _ds("O%d" % k, out_tp[k]) for k in range(N)}
    schemas = {"O%d" % k: [("Id_1", "int"), ("Me_1", "tp" if out_tp[k] else "int")] for k in range(N)}
    conn = Conn(schemas)
    saved = {}

    def reg(c, dfs, inputs, **kw):
        for n in dfs:
            if any(cm.data_type is TimePeriod for cm in inputs[n].components.values()):
                c.execute('UPDATE "%s" SET "Me_1" = vtl_period_normalize("Me_1")' % n)

    def load_dp(conn=None, components=None, dataset_name=None, file_path=None, **kw):
        if any(cm.data_type is TimePeriod for cm in components.values()):
            conn.execute('UPDATE "%s" SET "Me_1" = vtl_period_normalize("Me_1")' % dataset_name)
    for name, fn in (("register_dataframes", reg), ("load_datapoints_duckdb", load_dp), ("initialize_time_types", _init_memo)):
        saved[name] = getattr(EX, name)
        setattr(EX, name, fn)
    try:
        EX.execute_queries(conn=conn, queries=queries, ds_analysis=sched, path_dict=None, dataframe_dict={"G%d" % k: 1 for k in range(N)},
                           input_datasets=input_datasets, output_datasets=output_datasets, output_scalars={}, output_folder=None,
                           return_only_persistent=bool(rop), time_period_output_format=fmt)
    except Exception:
        return False
    finally:
        for k_, v_ in saved.items():
            setattr(EX, k_, v_)
    return not conn.missing


def check2(a0: bool, a1: bool, b0: bool, b1: bool, u0: int, u1: int, fmt: int, p0: bool, p1: bool, rop: bool) -> bool:
    return check(2, [a0, a1], [b0, b1], [u0, u1], fmt, [p0, p1], rop)


def check3(a0: bool, a1: bool, a2: bool, b0: bool, b1: bool, b2: bool, u0: int, u1: int, u2: int, fmt: int, rop: bool) -> bool:
    return check(3, [a0, a1, a2], [b0, b1, b2], [u0, u1, u2], fmt, [True, False, True], rop)


class _Scanner:
    """drop-in for sql/__init__.py's _VTL_REF (regex \\bvtl_[a-z_][a-z0-9_]*\\b) by plain string scanning: CrossHair interprets regular
    expressions in Python while tracing (1 s per call); equivalence with the real pattern is asserted at warm-up on the real SQL library"""

    def findall(self, s):
        return _refs_lower(s)


def _refs_lower(sql):
    out, i = [], sql.find("vtl_")
    low = set("abcdefghijklmnopqrstuvwxyz0123456789_")
    while i >= 0:
        ok_before = i == 0 or not (sql[i - 1].isalnum() or sql[i - 1] == "_")
        j = i
        while j < len(sql) and sql[j] in low:
            j += 1
        ok_after = j == len(sql) or not (sql[j].isalnum() or sql[j] == "_")
        if ok_before and ok_after and j > i + 4 and not sql[i + 4].isdigit():
            out.append(sql[i:j])
        i = sql.find("vtl_", max(j, i + 4))
    return out


def install_scanner():
    import vtlengine.duckdb_transpiler.sql as SQLM
    real = SQLM._VTL_REF
    if isinstance(real, _Scanner):
        return
    text = SQLM._read_full_sql()
    for frag in [text, "vtl_period_normalize", 'SELECT vtl_tp_shift("a", 1), xvtl_a, vtl_9x, VTL_UP, vtl_period_lt(x)vtl_b']:
        assert real.findall(frag) == _refs_lower(frag), "scanner differs from the real pattern"
    SQLM._macro_graph()          # parsed once with the real pattern
    SQLM._VTL_REF = _Scanner()


def warm(full=True):
    _schedule(2, (True, False))
    _schedule(3, (True, False, True))
    import itertools
    for bits in itertools.product([False, True], repeat=4):
        for u0 in range(len(MACROS)):
            for u in range(len(MACROS)):
                for f in range(4):
                    check2(bits[0], bits[1], bits[2], bits[3], u0, u, f, True, False, False)
    check2(False, True, False, True, 0, 1, 0, True, False, False)
    if full:
        check3(True, False, False, False, False, True, 2, 0, 0, 1, True)
