"""C27 - SDMX structures map to VTL structures as documented (Engine B / CrossHair, finite domain)."""
import os
import re

from vt.ch import runner

PATH = os.path.join(runner.VERIF, "vt", "ch", "h_c27.py")


def _cls(name):
    def c(args):
        a = re.findall(r"-?\d+|True|False", args)
        from pysdmx.model import DataType
        dts = list(DataType)
        di = int(a[1])
        dt = dts[di].value if 0 <= di < len(dts) else "?"
        return "C27:%s:%s" % (name, dt), "SDMX data type %s (harness %s(%s)) is not mapped as documented" % (dt, name, args)
    return c


def run(rep, tier):
    rep.functions = ["files.sdmx_handler.to_vtl_json", "API._InternalApi.load_datasets (pysdmx branch)",
                     "Utils.VTL_DTYPES_MAPPING", "Utils.VTL_ROLE_MAPPING"]
    rep.bounds = {"dtypes": "every member of the installed pysdmx.model.DataType (symbolic index)", "roles": "all 3",
                  "structures": "Schema / DataStructureDefinition / Dataflow with 1 component (complete) and 3 components "
                                "(roles of all three symbolic, dtype symbolic at one symbolic-by-shard position)"}
    rep.outside = ["run_sdmx() end-to-end (needs the unbuildable parser for _extract_input_datasets)", "structures of 4-5 components",
                   "two unmappable dtypes in one structure"]
    rep.assumptions = ["stub: _validate_json (jsonschema) skipped while tracing; executed un-stubbed for every 1-component structure in the concrete warm-up"]
    rep.trusted = ["CrossHair's model of Python (pysdmx msgspec objects are built concretely per path)", "docs/data_structures.rst table parser"]
    t = 150 if tier == "quick" else 500
    specs = [("c_one_json", "1-component structures: every dtype x role x structure kind through to_vtl_json", _cls("c_one_json")),
             ("c_one_loader", "1-component structures through load_datasets (what run()/semantic_analysis() use): Dataset components", _cls("c_one_loader"))]
    def _cls2(name):
        def c(args):
            a = [int(x) for x in re.findall(r"-?\d+", args)]
            from pysdmx.model import DataType
            dts = list(DataType)
            di, cj, src = (a[-3], a[-2], a[-1]) if len(a) >= 3 else (0, 0, 0)
            eff = dts[cj if src == 1 else di].value if 0 <= di < len(dts) and 0 <= cj < len(dts) else "?"
            return "C27:%s:%s" % (name, eff), "component whose data type comes from %s (local %s, concept %s) is not mapped as documented" % (
                ["the local representation", "the concept", "both representations"][src] if 0 <= src < 3 else "?", dts[di].value if 0 <= di < len(dts) else "?", dts[cj].value if 0 <= cj < len(dts) else "?")
        return c
    specs.append(("c_src_concept", "1 measure whose SDMX data type is given by the concept's core representation only: every data type x structure kind", None))
    specs.append(("c_src_both", "1 measure with a local representation (every data type) AND a concept core representation (one representative per documented VTL type and an undocumented one): the local one "
                                "decides, through to_vtl_json and load_datasets", None))
    if tier != "quick":
        specs.append(("c_three_loader", "3-component Schema through load_datasets", _cls("c_three_loader")))
    for p in range(3):
        specs.append(("c_three_p%d" % p, "3-component structures, symbolic dtype at position %d, all role combinations, order dims/measures/attributes" % p, _cls("c_three_p%d" % p)))
    runner.decide(rep, "vt.ch.h_c27", PATH, specs, timeout=t)
    rep.sample({"harness": "c_one(kind, di, ri, via)", "meaning": "kind: 0 Schema 1 DSD 2 Dataflow; di index into DataType; ri index into Role; via: load_datasets instead of to_vtl_json"})
