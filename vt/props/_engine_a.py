"""Shared driver for the engine-A (bounded SMT over regenerated SQL) properties."""
from vt.sqlsmt import driver

FUNCS_COMMON = ["duckdb_transpiler.Transpiler.SQLTranspiler.transpile (SQL regenerated from /repo on every run)",
                "AST.DAG.DAGAnalyzer.create_dag", "Interpreter.InterpreterAnalyzer (semantic pass)",
                "duckdb_transpiler/sql/init.sql + time_operators.sql (macros parsed and inlined)",
                "duckdb_transpiler.Transpiler.operators.registry"]

TRUSTED = ["sqlglot parses the emitted DuckDB SQL as DuckDB does (self-checked per template against real DuckDB on concrete tables)",
           "vt/sqlsmt semantics of each SQL construct (same self-check)", "z3", "hand-built AST shapes (vt/astb.py)",
           "mathematical reals stand for DOUBLE (rounding / inf outside every claim)",
           "uninterpreted builtins (round, trunc, ln, exp, sqrt, power, log, upper, lower, trim...) are shared symbols: plumbing is decided, the builtin's own arithmetic is trusted"]


def run(rep, tier, templates, functions, bounds, outside, assumptions=(), fn=None):
    rep.functions = FUNCS_COMMON + list(functions)
    rep.bounds = bounds
    rep.outside = list(outside)
    rep.trusted = TRUSTED
    rep.assumptions = ["inputs satisfy what the loader enforces: identifiers non-null and unique, <=1 datapoint without identifiers",
                       "Integer/Number inputs within +-2^20, strings over [a-c]{0,2}"] + list(assumptions)
    res = driver.run_all(rep, templates, fn=fn)
    rep.extra["selfcheck_cells_compared_with_duckdb"] = sum((r.get("selfcheck") or {}).get("cells", 0) for r in res)
    rep.extra["templates"] = len(templates)
    rep.extra["rule"] = ("one obligation = one script template: the SQL emitted by the real transpiler for it is evaluated symbolically over "
                         "all input tables within the row bound and compared by z3 with the VTL reference semantics (unsat = holds); "
                         "non-trivial = the reachability twin (some result datapoint exists) is satisfiable and the query was decided")
    return res
