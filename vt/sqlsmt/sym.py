"""Symbolic values, rows and tables shared by the SQL evaluator (engine A) and the reference
VTL interpreter (oracle).

A scalar is SV(kind, null, val): `null` is a z3 Bool, `val` a z3 term of the sort of `kind`
  int  -> Int      (VTL Integer / BIGINT)
  real -> Real     (VTL Number / DOUBLE - mathematical reals, a stated abstraction)
  bool -> Bool
  str  -> String   (z3 sequence theory; free strings)
  date -> Int      (proleptic Gregorian day number)
  null -> untyped NULL literal (val None)
  struct -> dict of SV (vtl_time_period / vtl_time_interval), val None
A table is a list of rows; a row has `present` (Bool), `cols` name -> SV, and `ord`, a list of
Int terms compared lexicographically (physical order, consumed by ROW_NUMBER() OVER () and
unordered list()).
"""
import itertools

import z3

SORTS = {"int": z3.IntSort, "real": z3.RealSort, "bool": z3.BoolSort, "str": z3.StringSort, "date": z3.IntSort}

TRUE = z3.BoolVal(True)
FALSE = z3.BoolVal(False)


def simp(t):
    """z3.simplify to a fixpoint (one pass leaves e.g. str.< over literals half-rewritten)."""
    for _ in range(6):
        n = z3.simplify(t)
        if n.eq(t):
            return n
        t = n
    return t


class Unsupported(Exception):
    """An SQL / VTL construct the encoder does not know: the template is reported as not encoded."""


FIELDED = ("struct", "tp", "iv")     # kinds whose value is a dict of field SVs


def default_val(kind):
    if kind in ("int", "date"):
        return z3.IntVal(0)
    if kind == "real":
        return z3.RealVal(0)
    if kind == "bool":
        return FALSE
    if kind == "str":
        return z3.StringVal("")
    raise Unsupported("default for kind %s" % kind)


class SV:
    __slots__ = ("kind", "null", "val", "fields", "dc")

    def __init__(self, kind, null, val, fields=None, dc=None):
        # dc: optional z3 Bool "don't care" - oracle side only: where true, any value is accepted
        self.kind, self.null, self.val, self.fields, self.dc = kind, null, val, fields, dc

    def __repr__(self):
        return "SV(%s, null=%s, %s)" % (self.kind, self.null, self.val if self.fields is None else self.fields)


def NULL(kind="null"):
    if kind == "null":
        return SV("null", TRUE, None)
    return SV(kind, TRUE, default_val(kind))


def lit(v):
    if v is None:
        return NULL()
    if isinstance(v, bool):
        return SV("bool", FALSE, z3.BoolVal(v))
    if isinstance(v, int):
        return SV("int", FALSE, z3.IntVal(v))
    if isinstance(v, float):
        return SV("real", FALSE, z3.RealVal(repr(v)))
    if isinstance(v, str):
        return SV("str", FALSE, z3.StringVal(v))
    raise Unsupported("literal %r" % (v,))


def as_kind(sv, kind):
    """Coerce (NULL literal -> typed null, int -> real)."""
    if sv.kind == kind:
        return sv
    if sv.kind == "null":
        if kind in FIELDED:
            return sv
        return SV(kind, TRUE, default_val(kind))
    if sv.kind == "int" and kind == "real":
        return SV("real", sv.null, z3.ToReal(sv.val), dc=sv.dc)
    if sv.kind == "date" and kind == "int" or sv.kind == "int" and kind == "date":
        return SV(kind, sv.null, sv.val)
    raise Unsupported("coerce %s -> %s" % (sv.kind, kind))


def trunc_real(x):
    """truncation toward zero of a real term -> Int term"""
    fl = z3.ToInt(x)
    return z3.If(z3.Or(x >= 0, z3.ToReal(fl) == x), fl, fl + 1)


def int_to_double(ctx, v):
    """BIGINT -> DOUBLE: exact up to 2^53, round-to-nearest-even above (only modelled when the integers range over the whole
    int64 domain; under the usual small bound the conversion is exact)"""
    if not getattr(ctx, "int64", False):
        return z3.ToReal(v)
    ax = z3.If(v >= 0, v, -v)
    res = ax
    for k in range(53, 63):
        s = 2 ** (k - 52)
        q, r = ax / s, ax % s
        up = z3.Or(r > s // 2, z3.And(r == s // 2, q % 2 == 1))
        res = z3.If(z3.And(ax >= 2 ** k, ax < 2 ** (k + 1)), q * s + z3.If(up, s, 0), res)
    return z3.ToReal(z3.If(v >= 0, res, -res))


def keep_dc(new, *olds):
    for o in olds:
        if o.dc is not None:
            new.dc = o.dc if new.dc is None else z3.Or(new.dc, o.dc)
    return new


def unify(a, b):
    """Common kind for two values (CASE branches, comparisons, COALESCE)."""
    if a.kind == b.kind:
        return a, b, a.kind
    # a statically NULL cell (e.g. CAST(NULL AS VARCHAR)) takes the kind of the other side
    if a.kind not in ("null", "struct") and z3.is_true(a.null) and b.kind != "null":
        a = SV("null", TRUE, None, dc=a.dc)
    elif b.kind not in ("null", "struct") and z3.is_true(b.null) and a.kind != "null":
        b = SV("null", TRUE, None, dc=b.dc)
    if a.kind == "null":
        if b.kind in FIELDED:
            return SV(b.kind, TRUE, None, None), b, b.kind
        return as_kind(a, b.kind), b, b.kind
    if b.kind == "null":
        if a.kind in FIELDED:
            return a, SV(a.kind, TRUE, None, None), a.kind
        return a, as_kind(b, a.kind), a.kind
    if {a.kind, b.kind} == {"int", "real"}:
        return as_kind(a, "real"), as_kind(b, "real"), "real"
    raise Unsupported("unify %s / %s" % (a.kind, b.kind))


def ite(c, a, b):
    """If(c, a, b) on SVs (c is a z3 Bool)."""
    a, b, k = unify(a, b)
    if k == "null":
        return a
    if k in FIELDED:
        if a.fields is None or b.fields is None:
            # one side is an untyped NULL: take the other side's fields
            src = a if a.fields is not None else b
            return SV(k, z3.If(c, a.null, b.null), None, dict(src.fields))
        return SV(k, z3.If(c, a.null, b.null), None, {n: ite(c, a.fields[n], b.fields[n]) for n in a.fields})
    return SV(k, z3.If(c, a.null, b.null), z3.If(c, a.val, b.val))


def same_dc(a, b):
    """same(), accepting anything where one side declares don't-care (oracle cells outside its domain)"""
    dcs = [x.dc for x in (a, b) if x.dc is not None]
    return z3.Or(same(a, b), *dcs) if dcs else same(a, b)


def same(a, b):
    """Null-safe equality (IS NOT DISTINCT FROM) as a z3 Bool - grouping, partitioning, row comparison."""
    a, b, k = unify(a, b)
    if k == "null":
        return TRUE
    if k in FIELDED:
        if a.fields is None or b.fields is None:
            return z3.And(a.null, b.null)
        return z3.Or(z3.And(a.null, b.null),
                     z3.And(z3.Not(a.null), z3.Not(b.null), *[same(a.fields[n], b.fields[n]) for n in a.fields]))
    return z3.Or(z3.And(a.null, b.null), z3.And(z3.Not(a.null), z3.Not(b.null), a.val == b.val))


def is_true(sv):
    """SQL truth of a boolean value (NULL is not true)."""
    if sv.kind == "null":
        return FALSE
    if sv.kind != "bool":
        raise Unsupported("truth of %s" % sv.kind)
    return z3.And(z3.Not(sv.null), sv.val)


class Row:
    __slots__ = ("present", "cols", "ord")

    def __init__(self, present, cols, ord_):
        self.present, self.cols, self.ord = present, cols, list(ord_)


class Table:
    def __init__(self, cols, rows, name=None):
        self.cols = list(cols)   # ordered column names
        self.rows = rows
        self.name = name

    def __repr__(self):
        return "Table(%s, %d rows)" % (self.cols, len(self.rows))


def lex_less(a, b):
    """a < b lexicographically for lists of Int terms (shorter padded with 0)."""
    n = max(len(a), len(b))
    a = list(a) + [z3.IntVal(0)] * (n - len(a))
    b = list(b) + [z3.IntVal(0)] * (n - len(b))
    res = FALSE
    for x, y in reversed(list(zip(a, b))):
        res = z3.Or(x < y, z3.And(x == y, res))
    return res


class Ctx:
    """Per-query context: fresh names, uninterpreted functions, error conditions, side assumptions."""

    def __init__(self):
        self.n = 0
        self.ufs = {}
        self.errors = []        # (cond Bool, tag)
        self.assume = []        # side constraints (input validity, witness definitions)
        self.inputs = {}        # name -> Table (symbolic inputs)
        self.input_vars = []    # every z3 constant created for inputs
        self.notes = []

    def fresh(self, prefix, sort):
        self.n += 1
        return z3.Const("%s!%d" % (prefix, self.n), sort)

    def uf(self, name, *sorts):
        key = (name,) + tuple(str(s) for s in sorts)
        if key not in self.ufs:
            self.ufs[key] = z3.Function("uf_" + name + "_" + "_".join(str(s)[:3] for s in sorts), *sorts)
        return self.ufs[key]

    def error(self, cond, tag):
        self.errors.append((z3.simplify(cond) if z3.is_bool(cond) else cond, tag))

    def error_flag(self, pred=None):
        conds = [c for c, t in self.errors if pred is None or pred(t)]
        return z3.Or(*conds) if conds else FALSE


KIND_OF_TYPE = {"Integer": "int", "Number": "real", "String": "str", "Boolean": "bool", "Date": "date",
                "Time_Period": "tp", "TimePeriod": "tp", "Time": "iv", "TimeInterval": "iv", "Duration": "str"}


def make_input(ctx, name, comps, nrows, str_alphabet=None, int_bound=None, str_maxlen=3):
    """Symbolic input dataset. comps: list of (name, vtl type, role, nullable).
    Validity (what the loader enforces) is added to ctx.assume: identifiers non-null and pairwise
    distinct across present rows, non-nullable components non-null, <= 1 row without identifiers."""
    rows = []
    for i in range(nrows):
        p = z3.Bool("%s.p%d" % (name, i))
        o = z3.Int("%s.o%d" % (name, i))
        ctx.input_vars += [p, o]
        ctx.assume.append(z3.And(o >= 0, o < nrows))
        cols = {}
        for cn, ty, role, nullable in comps:
            k = KIND_OF_TYPE[ty]
            if role == "Identifier" or not nullable:
                nl = FALSE
            else:
                nl = z3.Bool("%s.%s.%d.null" % (name, cn, i))
                ctx.input_vars.append(nl)
            if k == "tp":
                from vt.sqlsmt import timeeval as TE
                y = z3.Int("%s.%s.%d.year" % (name, cn, i))
                ind = z3.String("%s.%s.%d.ind" % (name, cn, i))
                num = z3.Int("%s.%s.%d.num" % (name, cn, i))
                ctx.input_vars += [y, ind, num]
                ymin, ymax = getattr(ctx, "year_range", (1900, 2100))
                ctx.assume.append(TE.valid_tp(y, ind, num, ymin, ymax))
                cols[cn] = TE.tp_sv(y, ind, num, nl)
                continue
            if k == "iv":
                # Time value 'YYYY-MM-DD/YYYY-MM-DD' in canonical spelling: two day numbers, start <= end
                from vt.sqlsmt import cal as _cal
                # inputs are the civil triples; the day numbers are forward terms (the calendar inverts them by provenance)
                vs = [z3.Int("%s.%s.%d.%s" % (name, cn, i, f)) for f in ("y1", "m1", "c1", "y2", "m2", "c2")]
                ctx.input_vars += vs
                y1, m1, c1, y2, m2, c2 = vs
                ymin, ymax = getattr(ctx, "year_range", (1900, 2100))
                d1, d2 = _cal.days_from_civil(y1, m1, c1), _cal.days_from_civil(y2, m2, c2)
                ctx.assume.append(z3.And(y1 >= ymin, y2 <= ymax, y1 <= y2, m1 >= 1, m1 <= 12, m2 >= 1, m2 <= 12, c1 >= 1, c1 <= _cal.dim(y1, m1),
                                         c2 >= 1, c2 <= _cal.dim(y2, m2), d1 <= d2))
                cols[cn] = SV("iv", nl, None, {"d1": SV("date", FALSE, d1), "d2": SV("date", FALSE, d2)})
                continue
            v = z3.Const("%s.%s.%d" % (name, cn, i), SORTS[k]())
            ctx.input_vars.append(v)
            cols[cn] = SV(k, nl, v)
            if k == "date":
                ymin, ymax = getattr(ctx, "year_range", (1900, 2100))
                from vt.sqlsmt import cal as _cal
                ctx.assume.append(z3.And(v >= _cal.jan1(z3.IntVal(ymin)), v < _cal.jan1(z3.IntVal(ymax + 1))))
                continue
            if k == "int" and int_bound is not None:
                # int_bound 2**63 = the whole BIGINT range (asymmetric)
                ctx.assume.append(z3.And(v >= -int_bound, v <= (int_bound - 1 if int_bound == 2 ** 63 else int_bound)))
            if k == "real" and int_bound is not None:
                rb = min(int_bound, 2 ** 20)
                ctx.assume.append(z3.And(v >= -rb, v <= rb))
            if k == "str":
                alpha = str_alphabet or ("a", "c")
                ctx.assume.append(z3.InRe(v, z3.Star(z3.Range(alpha[0], alpha[1]))))
                ctx.assume.append(z3.Length(v) <= str_maxlen)
        rows.append(Row(p, cols, [o]))
    ids = [cn for cn, ty, role, nl in comps if role == "Identifier"]
    for a, b in itertools.combinations(range(nrows), 2):
        ctx.assume.append(rows[a].ord[0] != rows[b].ord[0])
        if ids:
            ctx.assume.append(z3.Implies(z3.And(rows[a].present, rows[b].present),
                                         z3.Not(z3.And(*[same(rows[a].cols[c], rows[b].cols[c]) for c in ids]))))
        else:
            ctx.assume.append(z3.Not(z3.And(rows[a].present, rows[b].present)))
    t = Table([c[0] for c in comps], rows, name)
    t.comps = comps
    ctx.inputs[name] = t
    return t
