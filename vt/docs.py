"""Parse the RST list-tables of /repo/docs at run time (the documented oracle for C09/C11/C27)."""
import os
import re

REPO = os.environ.get("VT_REPO", "/repo")


def list_tables(path):
    """-> list of (preceding_heading, rows) ; rows = list of list of cell strings."""
    lines = open(os.path.join(REPO, path), encoding="utf-8").read().split("\n")
    out = []
    heading = ""
    i = 0
    while i < len(lines):
        ln = lines[i]
        if i + 1 < len(lines) and re.fullmatch(r"([=\-\*~\^])\1{3,}", lines[i + 1].strip() or "x") and ln.strip():
            heading = ln.strip()
        if ln.strip().startswith(".. list-table::"):
            rows = []
            i += 1
            while i < len(lines) and (lines[i].strip() == "" or lines[i].startswith("    ") or lines[i].startswith("\t")):
                s = lines[i]
                m = re.match(r"\s+\* - (.*)", s)
                if m:
                    rows.append([m.group(1).strip()])
                else:
                    m = re.match(r"\s+- (.*)", s)
                    if m and rows:
                        rows[-1].append(m.group(1).strip())
                    elif s.strip() and rows and not s.strip().startswith(":"):
                        rows[-1][-1] += " " + s.strip()
                i += 1
            out.append((heading, rows))
            continue
        i += 1
    return out


def _clean(s):
    return s.replace("*", "").replace("`", "").strip()


def matrix(path, heading):
    """A From/To matrix under `heading` -> dict[(from, to)] = cell"""
    for h, rows in list_tables(path):
        if h == heading:
            hdr = [_clean(c) for c in rows[0]]
            m = {}
            for r in rows[1:]:
                f = _clean(r[0])
                for to, cell in zip(hdr[1:], r[1:]):
                    m[(f, to)] = cell.strip()
            return m
    raise KeyError(heading)


def table(path, heading, index=0):
    hits = [rows for h, rows in list_tables(path) if h == heading]
    return [[_clean(c) for c in r] for r in hits[index]]
