#!/bin/sh
# tools/seed_matrix.sh "<seed>:<check> ..."  -> one line per pair: detected / missed
for x in "$@"; do
  s=${x%%:*}; p=${x##*:}
  out=$(timeout 1800 tools/try_seed.sh /verif/seeded/$s/patch.diff $p 2>&1)
  v=$(echo "$out" | grep -c "^VIOLATION")
  h=$(echo "$out" | grep -c "HARNESS-ERROR")
  a=$(echo "$out" | grep -c "does not apply\|repo dirty")
  first=$(echo "$out" | grep "^VIOLATION" | head -1 | sed 's/.*(\(.*\)/\1/' | cut -c1-160)
  echo "$s on $p: violations=$v harness_errors=$h patch_fail=$a :: $first"
  git -C /verif clean -fdq replays
done
