"""C20 harness (CrossHair): the integer summary `handler_ok` of TimePeriodHandler's acceptance equals the real setters."""
from vt import boot

boot.boot()
from vtlengine.DataTypes.TimeHandling import PeriodDuration, TimePeriodHandler  # noqa: E402
from vt.sqlsmt.pytime import handler_ok_py  # noqa: E402

import vtlengine.DataTypes.TimeHandling as TH  # noqa: E402


class _LightError(Exception):
    """stand-in for RunTimeError inside TimeHandling while tracing: message formatting (which would force CrossHair to
    realise the symbolic day / year) is skipped; only the fact that an error is raised matters here"""

    def __init__(self, *a, **k):
        Exception.__init__(self, a[0] if a else "error")


TH.RunTimeError = _LightError

INDS = ["A", "S", "Q", "M", "W", "D", "X"]
PERIODS = dict(PeriodDuration.periods)


def pick(i):
    for k in range(len(INDS)):
        if i == k:
            return INDS[k]
    raise IndexError(i)


def real_ok(ind, y, n):
    h = TimePeriodHandler.__new__(TimePeriodHandler)
    try:
        h.year = y
        h.period_indicator = ind
        h.period_number = n
        return True
    except Exception:
        return False


def check(i, y, n):
    ind = pick(i)
    return real_ok(ind, y, n) == handler_ok_py(PERIODS, ind, y, n)


def warm_light():
    for i in range(len(INDS)):
        check(i, 2020, 1)
        check(i, 2021, 366)
