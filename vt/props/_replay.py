"""`./check <id> --replay <file>`: re-execute a recorded counterexample against the current tree."""
import json
import sys


def find_template(pid, tid):
    from vt import templates
    fn = getattr(templates, pid.lower())
    for tier in ("quick", "thorough"):
        for t in fn(tier):
            if t["id"] == tid:
                return t
    return None


def replay_file(pid, path):
    import pandas as pd
    from vt import realrun as R
    from vtlengine.Exceptions import VTLEngineException
    d = json.load(open(path))
    t = find_template(pid, d.get("template"))
    if t is None:
        print("template %r not found" % d.get("template"))
        return 2
    dfs = {}
    for name, rows in (d.get("inputs") or {}).items():
        st = [s for s in t["structs"] if s["name"] == name][0]
        def cell(c, v):
            if c["type"] == "Date" and isinstance(v, int):
                import datetime
                return (datetime.date(1970, 1, 1) + datetime.timedelta(days=v)).isoformat()
            return v
        cols = {c["name"]: pd.Series([cell(c, r.get(c["name"])) for r in rows], dtype=object) for c in st["DataStructure"]}
        dfs[name] = pd.DataFrame(cols)
    structs = R.structures(*[s for s in t["structs"] if s["name"] in dfs], scalars=t.get("scalars"))
    print("script:", d.get("script"))
    print("inputs:", json.dumps(d.get("inputs"))[:1000])
    print("expected (VTL reference):", json.dumps(d.get("expected"))[:1000])
    try:
        res = R.run_ast(t["ast"], structs, dfs)
    except VTLEngineException as e:
        print("observed: VTL error %s %s" % (type(e).__name__, str(e)[:300]))
        obs = "vtl-error"
    except Exception as e:
        print("observed: RAW %s %s" % (type(e).__name__, str(e)[:300]))
        print("VIOLATION property=%s replay=%s" % (pid, path))
        return 1
    else:
        out = {k: ([{c: R._norm(v) for c, v in row.items()} for row in v.data.to_dict("records")] if hasattr(v, "data") and v.data is not None else getattr(v, "value", None)) for k, v in res.items()}
        print("observed:", json.dumps(out, default=str)[:1500])
        obs = out.get("DS_r")
    exp = d.get("expected")
    if isinstance(exp, list) and isinstance(obs, list):
        from vt.sqlsmt.equiv import _close
        cols = sorted(exp[0].keys()) if exp else []
        ok = len(exp) == len(obs) and all(any(set(o.keys()) == set(e.keys()) and all(_close(e[c], o.get(c)) for c in e) for o in obs) for e in exp)
        if ok:
            print("replay: result now equals the reference")
            return 0
    print("VIOLATION property=%s replay=%s" % (pid, path))
    return 1
