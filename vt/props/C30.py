"""C30 - numeric precision settings are validated as documented (Engine B / CrossHair); partial."""
import os
import re

from vt.ch import runner

PATH = os.path.join(runner.VERIF, "vt", "ch", "h_c30.py")


def _cls(kind):
    def c(args):
        a = [int(x) for x in re.findall(r"-?\d+", args)]
        show = ["unset" if v == 99 else str(v) for v in a]
        if kind == "accept":
            w, s = a
            reg = "width>38" if (w != 99 and w > 38) else "w=%s,s=%s" % tuple(show)
            return "C30:accept:" + reg, "setting width=%s scale=%s: accepted/rejected against the documented ranges" % tuple(show)
        if kind == "wlts":
            return "C30:creatable:width<scale", "documented width below the scale yields an uncreatable DECIMAL(w,s) (e.g. width=%s scale=%s)" % tuple(show)
        if kind == "history":
            return "C30:history", "effective decimal configuration depends on the previous run's settings (%s)" % ",".join(show)
        return "C30:%s:%s" % (kind, ",".join(show)), "%s fails for %s" % (kind, ",".join(show))
    return c


def run(rep, tier):
    rep.functions = ["duckdb_transpiler.Config.config.set_decimal_config", "get_decimal_type", "get_decimal_config",
                     "Utils._number_config._parse_env_value", "get_output_significant_digits", "get_effective_numeric_digits"]
    rep.bounds = {"VTL_DUCKDB_DECIMAL_WIDTH": "every integer -5..45 and 'not defined' (symbolic)",
                  "OUTPUT_NUMBER_SIGNIFICANT_DIGITS": "every integer -5..45 and 'not defined' (symbolic)",
                  "history": "two consecutive configurations in one process"}
    rep.outside = ["what DuckDB stores in a DECIMAL column, rounding of inputs, exact decimal sums (DuckDB C++ internals)",
                   "non-integer strings in the environment variables", "histories longer than 2 runs"]
    rep.assumptions = ["stub: RunTimeError message formatting skipped inside the two config modules (C26 covers construction)", "stubs: os.getenv / os.environ.get return the symbolic setting; module globals reset to the defaults before each fresh-process scenario",
                       "DuckDB can create DECIMAL(w,s) iff 1<=w<=38 and s<=w (the two rules its own error messages state; replayed in DESIGN probes)"]
    rep.trusted = ["CrossHair's model of Python", "docs/environment_variables.rst ranges transcribed in h_c30.doc_ok (6..38 / 6..15 / -1 / not defined)"]
    t = 90 if tier == "quick" else 300
    specs = [
        ("c_accept", "accepted <=> documented ranges, all (width, scale) in the bound", _cls("accept")),
        ("c_creatable_main", "accepted => DECIMAL(w,s) creatable and equal to the documented effective values (outside the recorded width<scale region)", _cls("creatable")),
        ("c_creatable_width_lt_scale", "same, inside the width<scale region", _cls("wlts")),
        ("c_type_string", "get_decimal_type() text equals DECIMAL(effective width, effective scale)", _cls("typestring")),
        ("c_history", "a configuration's effect does not depend on the previous configuration of the process", _cls("history")),
        ("c_output_digits", "OUTPUT_NUMBER_SIGNIFICANT_DIGITS string parsing: accepted <=> -1 or 6..15, effective digits as documented", _cls("digits")),
    ]
    runner.decide(rep, "vt.ch.h_c30", PATH, specs, timeout=t)
    rep.sample({"harness": "c_accept(w, s)", "meaning": "real set_decimal_config() under env {WIDTH: w, SCALE: s}, 99 = not defined"})
    from vt.props import _c30_round
    _c30_round.run_round(rep, tier)
