"""Run engine-A templates (in worker processes) and feed a Report.

A template is a dict:
  id        unique string
  ast       Start node (vt.astb)
  structs   list of structure dicts
  nrows     int or {dataset: int}
  check     list of result names to compare with the oracle (default: every dataset result)
  scalars / scalar_values / opts   optional
  mode      'equiv' (default) | 'order' (self-composition under two physical orders) | 'invariants'
"""
import concurrent.futures as cf
import json
import multiprocessing as mp
import os
import re
import time
import traceback

import z3
from sqlglot import errors as sqlglot_errors


def _classify(info):
    w = info.get("what", "")
    obs = str(info.get("observed", ""))
    if info.get("raw_error"):
        m = re.match(r"raw (\w+)", obs)
        return "raw-error:" + (m.group(1) if m else "?")
    if w.startswith("columns"):
        return "columns"
    if w.startswith("no runtime error"):
        return "missing-error"
    if w.startswith("run() raised a VTL error"):
        m = re.search(r"VTL error (\w+)", obs)
        return "unexpected-vtl-error:" + (m.group(1) if m else "?")
    if w.startswith("datapoints"):
        return "datapoints"
    return "values"


def _raw_build_failure(tpl, exc):
    """The real pipeline (DAG / semantic analysis / transpiler) raised while preparing a template.  A VTL error means the template is not a
    valid script (harness problem); anything else is an internal error of the real code for a script that semantic analysis accepts: it is
    confirmed through the real run() on a one-datapoint input and then reported as a violation (raw error)."""
    import pandas as pd
    from vt import realrun as R
    from vtlengine.Exceptions import VTLEngineException
    if isinstance(exc, VTLEngineException):
        return None
    # only failures of the stages AFTER semantic analysis count: a script that semantic analysis itself rejects (even with an uncoded
    # exception) is outside the behavioural properties (its error is C26's subject)
    frames = traceback.extract_tb(exc.__traceback__)
    if not any("duckdb_transpiler" in (f.filename or "") for f in frames):
        return None
    structs = R.structures(*tpl["structs"], scalars=tpl.get("scalars") or None)
    DEF = {"Integer": 1, "Number": 1.5, "String": "a", "Boolean": True, "Date": "2020-01-01", "Time_Period": "2020-M01", "Time": "2020-01-01/2020-01-31", "Duration": "M"}
    dfs = {}
    for s_ in tpl["structs"]:
        dfs[s_["name"]] = pd.DataFrame({c["name"]: pd.Series([DEF.get(c["type"], 1)], dtype=object) for c in s_["DataStructure"]})
    try:
        R.run_ast(tpl["ast"], structs, dfs, **({"scalar_values": tpl.get("scalar_values")} if tpl.get("scalar_values") else {}))
    except VTLEngineException:
        return None
    except Exception as e2:  # noqa
        return dict(inputs={k: v.to_dict("records") for k, v in dfs.items()}, observed="raw %s: %s" % (type(e2).__name__, str(e2)[:300]), raw_error=True,
                    what="run() raised a raw (non-VTL) error", status="reproduced")
    return None


def _evaluator(tpl):
    if tpl.get("evaluator") == "time":
        from vt.sqlsmt.timeeval import TimeEvaluator
        return TimeEvaluator
    return None


def run_template(tpl):
    """Worker: returns a JSON-serialisable dict."""
    t0 = time.time()
    out = dict(id=tpl["id"], status="undecided", solver_s=0.0, selfcheck=None, notes=[])
    try:
        from vt.sqlsmt import equiv, harness as H
        from vt.sqlsmt.sym import Unsupported
        from vt.spec import ref as REF
        from vt.astb import render
        out["script"] = render(tpl["ast"])
        try:
            case = H.Case(tpl["id"], tpl["ast"], tpl["structs"], nrows=tpl.get("nrows", 2), scalars=tpl.get("scalars"),
                          scalar_values=tpl.get("scalar_values"), opts=tpl.get("opts"), evaluator_cls=_evaluator(tpl)).build()
        except Exception as e:  # noqa
            info = _raw_build_failure(tpl, e)
            if info is None:
                raise
            info["script"] = out["script"]
            out.update(status="violated", key="%s:%s" % (tpl["id"], _classify(info)), info=info, what=info["what"] + " - " + info["observed"][:160])
            return out
        out["sql"] = [q[1][:600] for q in case.pipe.queries]
        if tpl.get("probe_first"):
            # contexts whose failure is decided by the schema, not by the data (case-variant names collide inside DuckDB for every input): the real
            # engine is probed on a few concrete valid inputs first; only contexts that survive are decided symbolically
            info = case.probe_real(seed=int(os.environ.get("VERIF_SEED") or 0))
            if info is None:
                try:
                    info = _concrete_fallback(case, tpl, REF)
                except Exception as e:  # noqa
                    info = None
                    out["notes"].append("concrete comparison not possible: %s" % str(e)[:120])
            if info is not None:
                info["script"] = out["script"]
                out.update(status="violated", key="%s:%s" % (tpl["id"], _classify(info)), info=info, what=info["what"] + " - " + str(info.get("observed"))[:160])
                return out
        try:
            case.encode()
        except (Unsupported, sqlglot_errors.ParseError) as e:
            # the emitted SQL is outside the encoder (or is not SQL at all): probe the real engine concretely; a raw
            # (non-VTL) failure is a reproduced violation, anything else leaves the template not encoded
            info = case.probe_real(seed=int(os.environ.get("VERIF_SEED") or 0))
            if info is None:
                info = _concrete_fallback(case, tpl, REF)
            if info is not None:
                info["script"] = out["script"]
                out.update(status="violated", key="%s:%s" % (tpl["id"], _classify(info)), info=info, what=info["what"] + " - " + str(info.get("observed"))[:160])
                return out
            out.update(status="not_encoded", reason="SQL: %s" % str(e)[:300])
            return out
        ref_cls = tpl.get("ref_cls") or REF.Ref
        if tpl.get("evaluator") == "time":
            from vt.spec.timeref import TimeRef
            ref_cls = TimeRef
        try:
            ref = ref_cls(case.ctx, case.inputs, scalars=tpl.get("ref_scalars"))
            ores = ref.run(tpl["ast"])
        except Unsupported as e:
            out.update(status="not_encoded", reason="oracle: %s" % e)
            return out
        # translator self-check against real DuckDB on concrete tables
        cells, skipped, mism = case.selfcheck(samples=tpl.get("samples", 4), seed=int(os.environ.get("VERIF_SEED") or 0))
        out["selfcheck"] = dict(cells=cells, skipped_uninterpreted=skipped, mismatches=len(mism))
        if mism:
            out.update(status="harness_error", reason="encoding disagrees with real DuckDB on concrete tables: %s" % json.dumps(mism[0], default=str)[:600])
            return out
        from vt.sqlsmt.sym import Row, TRUE as _T
        for n_, v_ in list(ores.items()):
            if not isinstance(v_, REF.RDS):
                # scalar result: the engine materialises it as a one-row table with column `value`
                ores[n_] = REF.RDS([("value", v_[1], "Measure")], [Row(_T, {"value": v_[0]}, [])])
        names = tpl.get("check") or list(ores.keys())
        worst = "discharged"
        for name in names:
            q = equiv.Query(case, name, ores[name], ref, timeout_ms=tpl.get("timeout_ms", 20000))
            sm = q.structure_mismatch()
            r_reach, dt = q.reach()
            out["solver_s"] += dt
            if r_reach != "sat":
                out["notes"].append("reachability twin of %s: %s" % (name, r_reach))
                if r_reach == "unsat":
                    out.update(status="harness_error", reason="vacuous: no output row of %s is reachable" % name)
                    return out
                worst = "undecided"
                continue
            if sm is not None:
                # structural difference: confirm on any concrete valid input
                s = q.solver()
                s.add(z3.Or(*[r.present for r in q.T.rows]))
                s.check()
                info = equiv.replay(case, _StructQ(q), s.model())
                info["what"] = sm
                out.update(status="violated", key="%s:%s" % (tpl["id"], "columns"), info=info, what=sm)
                return out
            r, model, dt = q.check()
            out["solver_s"] += dt
            out.setdefault("queries", []).append(dict(result=name, verdict=r, solver_s=round(dt, 3)))
            if r == "unsat":
                continue
            if r != "sat":
                worst = "undecided"
                out["notes"].append("query %s: %s" % (name, r))
                continue
            # counterexample: minimise, replay through the real run()
            tried = []
            reproduced = None
            models = [q.small_model(model), model]
            for m in models:
                info = equiv.replay(case, q, m)
                tried.append(info["status"])
                if info["status"] == "reproduced":
                    reproduced = info
                    break
            if reproduced is not None:
                out.update(status="violated", key="%s:%s" % (tpl["id"], _classify(reproduced)), info=reproduced,
                           what=reproduced.get("what", "result differs from the VTL reference"))
                return out
            out["notes"].append("counterexample for %s did not reproduce through run(): %s" % (name, tried))
            if "inconclusive" in tried:
                worst = "undecided"
            else:
                out.update(status="harness_error", reason="solver counterexample for %s does not reproduce through the real run() "
                                                          "(encoding or oracle wrong): %s" % (name, json.dumps(info, default=str)[:700]))
                return out
        out["status"] = worst
        return out
    except Exception as e:  # noqa
        out.update(status="harness_error", reason="driver exception %s: %s" % (type(e).__name__, str(e)[:300]), tb=traceback.format_exc()[-1500:])
        return out
    finally:
        out["wall_s"] = round(time.time() - t0, 2)


def _concrete_fallback(case, tpl, REF):
    """The emitted SQL is outside the encoder: nothing is decided for this template.  As an auxiliary (NOT the deciding method)
    a few random valid inputs are pushed through the real run() and compared with the reference evaluated on them, so that a
    gross divergence hidden behind un-encodable SQL is still reported (it is a real failure of the real code)."""
    import random
    from vt import realrun as R
    from vt.sqlsmt import equiv
    from vt.sqlsmt.sym import Row, TRUE as _T, Unsupported
    from vtlengine.Exceptions import VTLEngineException
    try:
        ref_cls = REF.Ref
        if tpl.get("evaluator") == "time":
            from vt.spec.timeref import TimeRef
            ref_cls = TimeRef
        ref = ref_cls(case.ctx, case.inputs, scalars=tpl.get("ref_scalars"))
        ores = ref.run(tpl["ast"])
    except Unsupported:
        return None
    rng = random.Random(int(os.environ.get("VERIF_SEED") or 0) + 17)
    for k in range(6):
        try:
            asg, subs = case.random_assignment(rng)
        except RuntimeError:
            return None
        memo = {}
        dom = equiv.ceval(z3.And(*ref.domain), subs, memo) if ref.domain else z3.BoolVal(True)
        may = equiv.ceval(z3.Or(*(ref.may_err + ref.must_err)), subs, memo) if (ref.may_err or ref.must_err) else z3.BoolVal(False)
        if dom is None or not z3.is_true(dom) or may is None or z3.is_true(may):
            continue
        cin, dfs = equiv.frames(case, subs)
        try:
            res = R.run_ast(case.ast, case.struct_dict, dfs)
        except VTLEngineException:
            continue
        except Exception:
            continue
        for name, v in ores.items():
            if not isinstance(v, REF.RDS):
                continue
            exp_rows = equiv.expected_rows(case, v, subs)
            if exp_rows is None or name not in res or not hasattr(res[name], "data") or res[name].data is None:
                continue
            diff = equiv.compare(exp_rows, res[name], v)
            if diff is not None:
                return dict(inputs=_json(cin), expected=_json(exp_rows), observed=[{c: R._norm(x) for c, x in row.items()} for row in res[name].data.to_dict("records")],
                            what=diff, status="reproduced", note="found by the concrete fallback on un-encodable SQL (auxiliary, not a solver verdict)")
    return None


def _json(x):
    from vt.sqlsmt.harness import _jsonable
    return _jsonable(x)


class _StructQ:
    """Query view used for the replay of a structural mismatch (expected rows are not compared)."""

    def __init__(self, q):
        self.__dict__.update(q.__dict__)


def _pool_child(fn, item, started, limit):
    """runs in a pool worker: record the start, arm a KERNEL alarm (default action: the process dies) and run the item.  z3 does not always
    honour its own time limit (a query with int64-sized coefficients once spent half an hour inside the Diophantine solver, out of reach of
    Python signal handlers), so the hard limit has to come from outside the interpreter."""
    import signal
    iid = item.get("id") if isinstance(item, dict) else str(item)
    try:
        started[iid] = time.time()
    except Exception:  # noqa  (a manager hiccup must not cost the item: without a start record it is simply re-submitted if the pool breaks)
        pass
    signal.signal(signal.SIGALRM, signal.SIG_DFL)
    signal.setitimer(signal.ITIMER_REAL, limit)
    try:
        return fn(item)
    finally:
        signal.setitimer(signal.ITIMER_REAL, 0)


def pmap(fn, items, workers=None, hard_s=None):
    """fn over items in a process pool with a hard wall-clock limit per item.  A worker that exceeds it is killed by its alarm; that breaks
    the pool, so the unfinished items are re-submitted to a fresh pool, except the ones that had used up their limit: those are reported as
    undecided."""
    from concurrent.futures.process import BrokenProcessPool
    workers = workers or min(16, os.cpu_count() or 4)

    def iid_of(it):
        return it.get("id") if isinstance(it, dict) else str(it)

    def limit_of(it):
        if hard_s is not None:
            return hard_s
        tm = (it.get("timeout_ms", 20000) if isinstance(it, dict) else 20000) / 1000.0
        return max(600.0, 6 * tm)
    mgr = mp.Manager()
    started = mgr.dict()
    remaining = list(items)
    results = []
    crashes = {}
    for attempt in range(6):
        if not remaining:
            break
        done = set()
        with cf.ProcessPoolExecutor(max_workers=workers, mp_context=mp.get_context("fork")) as ex:
            futs = {ex.submit(_pool_child, fn, it, started, limit_of(it)): it for it in remaining}
            for f in cf.as_completed(futs):
                it = futs[f]
                try:
                    results.append(f.result())
                    done.add(iid_of(it))
                except BrokenProcessPool:
                    continue
                except Exception as e:  # noqa
                    # an exception of the pool machinery itself (fn reports its own failures in its result): retried once before it is reported
                    crashes[iid_of(it)] = crashes.get(iid_of(it), 0) + 1
                    if crashes[iid_of(it)] >= 2:
                        results.append(dict(id=iid_of(it), status="harness_error", reason="worker crashed: %s" % e, solver_s=0, subs=[]))
                        done.add(iid_of(it))
        nxt = []
        now = time.time()
        for it in remaining:
            k = iid_of(it)
            if k in done:
                continue
            t0 = started.get(k)
            if t0 is not None and now - t0 >= limit_of(it) - 1:
                results.append(dict(id=k, status="undecided", solver_s=round(now - t0, 1), subs=[],
                                    notes=["killed after %.0f s of wall clock: the solver did not honour its time limit" % (now - t0)]))
            else:
                if t0 is not None:
                    del started[k]
                nxt.append(it)
        remaining = nxt
    for it in remaining:
        results.append(dict(id=iid_of(it), status="undecided", solver_s=0, subs=[], notes=["not run: the worker pool kept breaking"]))
    mgr.shutdown()
    return results


def run_all(rep, templates, workers=None, label="", fn=None):
    fn = fn or run_template
    results = pmap(fn, templates, workers=workers)
    results.sort(key=lambda r: r["id"])
    for r in results:
        feed(rep, r)
    return results


def feed(rep, r):
    st = r["status"]
    oid = r["id"]
    if st == "violated":
        v = rep.violation(r["key"], r.get("what", ""), dict(r.get("info") or {}, template=r["id"], script=r.get("script"), sql=r.get("sql")))
        rep.ob(oid, v, r.get("solver_s", 0), key=r["key"], script=r.get("script"), what=r.get("what"))
    elif st == "discharged":
        rep.ob(oid, "discharged", r.get("solver_s", 0), script=r.get("script"), queries=r.get("queries"), selfcheck=r.get("selfcheck"))
        rep.sample(dict(template=oid, script=r.get("script"), sql=(r.get("sql") or [""])[-1][:300], queries=r.get("queries")))
    elif st == "not_encoded":
        rep.ob(oid, "not_encoded", 0, nontrivial=False, script=r.get("script"), reason=r.get("reason"))
    elif st == "harness_error":
        rep.ob(oid, "undecided", r.get("solver_s", 0), nontrivial=False, script=r.get("script"), reason=r.get("reason"))
        rep.harness_error("%s: %s" % (oid, r.get("reason")))
    else:
        rep.ob(oid, "undecided", r.get("solver_s", 0), nontrivial=False, script=r.get("script"), notes=r.get("notes"))


# ---------------------------------------------------------------------- C10: result invariants / structure
_KINDS_OK = {"Integer": ("int",), "Number": ("real", "int"), "String": ("str",), "Boolean": ("bool",), "Date": ("date",),
             "TimePeriod": ("str",), "TimeInterval": ("str",), "Duration": ("str",)}


def _check_concrete_dataset(ds, sem):
    """invariants of a returned vtlengine Dataset against its semantic structure -> list of problems"""
    import pandas as pd
    probs = []
    cols = list(ds.data.columns)
    want = list(sem.components.keys())
    if cols != want:
        probs.append("columns %s differ from semantic components %s" % (cols, want))
    for n, c in sem.components.items():
        rc = ds.components.get(n)
        if rc is None:
            probs.append("component %s missing" % n)
            continue
        if (rc.role, rc.data_type, rc.nullable) != (c.role, c.data_type, c.nullable):
            probs.append("component %s: (%s,%s,%s) vs semantic (%s,%s,%s)" % (n, rc.role, rc.data_type.__name__, rc.nullable, c.role, c.data_type.__name__, c.nullable))
    ids = [n for n, c in sem.components.items() if c.role.name == "IDENTIFIER" and n in cols]
    df = ds.data
    for n, c in sem.components.items():
        if n not in cols:
            continue
        nn = df[n].isna()
        if (c.role.name == "IDENTIFIER" or not c.nullable) and nn.any():
            probs.append("null in non-nullable component %s" % n)
        tn = c.data_type.__name__
        for v in df[n][~nn]:
            ok = True
            if tn == "Integer":
                # value-level conformity: an integral number (the pandas dtype - int64 / Int64 / float64 - is C-level, outside)
                pv = v.item() if hasattr(v, "item") else v
                ok = not isinstance(pv, (bool, str)) and (isinstance(pv, int) or (isinstance(pv, float) and pv.is_integer()))
            elif tn == "Number":
                ok = not isinstance(v, (str, bool)) and (isinstance(v, (int, float)) or hasattr(v, "dtype"))
            elif tn == "Boolean":
                ok = isinstance(v, (bool,)) or str(getattr(v, "dtype", "")) == "bool"
            elif tn == "String":
                ok = isinstance(v, str)
            if not ok:
                probs.append("value %r of component %s is not a valid %s" % (v, n, tn))
                break
    if ids:
        if df.duplicated(subset=ids).any():
            probs.append("duplicate identifier keys")
    elif len(df) > 1:
        probs.append("dataset without identifiers has %d datapoints" % len(df))
    return probs


def run_invariants(tpl):
    t0 = time.time()
    out = dict(id=tpl["id"], status="undecided", solver_s=0.0, notes=[])
    try:
        from vt.sqlsmt import equiv, harness as H
        from vt.sqlsmt.sym import Unsupported, same, FALSE
        from vt.astb import render
        from vt import realrun as R
        from vtlengine.Exceptions import VTLEngineException
        from vtlengine.Model import Dataset
        out["script"] = render(tpl["ast"])
        try:
            case = H.Case(tpl["id"], tpl["ast"], tpl["structs"], nrows=tpl.get("nrows", 2), scalars=tpl.get("scalars"),
                          scalar_values=tpl.get("scalar_values"), opts=tpl.get("opts"), evaluator_cls=_evaluator(tpl)).build()
        except Exception as e:  # noqa
            if _raw_build_failure(tpl, e) is None:
                raise
            out.update(status="not_encoded", reason="the real pipeline raises a raw error for this script (reported by the property the template belongs to and by C32)")
            return out
        try:
            case.encode()
        except (Unsupported, sqlglot_errors.ParseError) as e:
            out.update(status="not_encoded", reason="SQL: %s" % str(e)[:200])
            return out
        ctx = case.ctx
        sem_all = R.semantic_ast(tpl["ast"], case.struct_dict)
        queries = []
        for name, T in case.results.items():
            sem = case.pipe.output_datasets.get(name)
            if sem is None:
                continue
            ids = [n for n, c in sem.components.items() if c.role.name == "IDENTIFIER"]
            conds = []
            static = []
            for n, c in sem.components.items():
                if n not in T.cols:
                    static.append("component %s predicted by semantic analysis is not produced by the SQL" % n)
                    continue
                kinds = {r.cols[n].kind for r in T.rows} - {"null"}
                okk = _KINDS_OK.get(c.data_type.__name__)
                for r in T.rows:
                    sv = r.cols[n]
                    if c.role.name == "IDENTIFIER" or not c.nullable:
                        conds.append(z3.And(r.present, sv.null))
                    if okk and sv.kind == "real" and c.data_type.__name__ == "Integer" and not H._has_uf(sv.val):
                        conds.append(z3.And(r.present, z3.Not(sv.null), z3.ToReal(z3.ToInt(sv.val)) != sv.val))
                    elif okk and sv.kind not in okk + ("null",):
                        static.append("component %s declared %s but the SQL column is %s" % (n, c.data_type.__name__, sv.kind))
                        break
            present_ids = [i for i in ids if i in T.cols]
            if ids and len(present_ids) == len(ids):
                conds.append(equiv.dup_keys(T, ids))
            elif not ids:
                rows = T.rows
                conds += [z3.And(a.present, b.present) for i, a in enumerate(rows) for b in rows[i + 1:]]
            s = z3.Solver()
            s.set("timeout", tpl.get("timeout_ms", 20000))
            s.add(*ctx.assume)
            s.add(z3.Not(ctx.error_flag()))
            # reachability twin + witness input for the concrete structure comparison
            s.push()
            s.add(z3.Or(*[r.present for r in T.rows]))
            t = time.time()
            rr = s.check()
            out["solver_s"] += time.time() - t
            wit = s.model() if rr == z3.sat else None
            s.pop()
            if rr == z3.unsat:
                s2 = z3.Solver()
                s2.add(*ctx.assume)
                s2.add(z3.Or(*[r.present for r in T.rows]))
                if s2.check() == z3.sat:
                    out.update(status="not_encoded", reason="every execution with a datapoint raises a runtime error: no result to constrain")
                else:
                    out.update(status="harness_error", reason="vacuous: no datapoint of %s reachable" % name)
                return out

            def concrete(model, why):
                subs = equiv.model_subs(case, model)
                cin, dfs = equiv.frames(case, subs)
                try:
                    res = R.run_ast(case.ast, case.struct_dict, dfs)
                except VTLEngineException as e:
                    return None, cin, "VTL error %s" % type(e).__name__
                except Exception as e:
                    return ["run() raised raw %s: %s" % (type(e).__name__, str(e)[:150])], cin, None
                got = res[name]
                if not isinstance(got, Dataset) or got.data is None:
                    return None, cin, "not a dataset"
                return _check_concrete_dataset(got, sem_all[name]), cin, None
            if wit is not None:
                probs, cin, skip = concrete(wit, "structure")
                if probs:
                    out.update(status="violated", key="%s:%s" % (tpl["id"], "structure"), what="; ".join(probs)[:400],
                               info=dict(inputs=H._jsonable(cin), what="; ".join(probs)[:600], result=name))
                    return out
            if static:
                out["notes"].append("static: " + "; ".join(static))
            if conds:
                s.add(z3.Or(*conds))
                t = time.time()
                r = s.check()
                dt = time.time() - t
                out["solver_s"] += dt
                queries.append(dict(result=name, verdict=str(r), solver_s=round(dt, 3)))
                if r == z3.sat:
                    probs, cin, skip = concrete(s.model(), "invariant")
                    if probs:
                        out.update(status="violated", key="%s:%s" % (tpl["id"], "invariant"), what="; ".join(probs)[:400],
                                   info=dict(inputs=H._jsonable(cin), what="; ".join(probs)[:600], result=name))
                        return out
                    out.update(status="harness_error", reason="invariant counterexample for %s does not reproduce through run(): %s %s" % (name, H._jsonable(cin), skip))
                    return out
                if r != z3.unsat:
                    out["notes"].append("query %s: %s" % (name, r))
                    out["status"] = "undecided"
                    out["queries"] = queries
                    return out
        out["queries"] = queries
        out["status"] = "discharged"
        return out
    except Exception as e:  # noqa
        out.update(status="harness_error", reason="driver exception %s: %s" % (type(e).__name__, str(e)[:300]), tb=traceback.format_exc()[-1500:])
        return out
    finally:
        out["wall_s"] = round(time.time() - t0, 2)


# ---------------------------------------------------------------------- C33: self-composition under two physical orders
def run_order(tpl):
    t0 = time.time()
    out = dict(id=tpl["id"], status="undecided", solver_s=0.0, notes=[])
    try:
        from vt.sqlsmt import equiv, harness as H
        from vt.sqlsmt.sym import Unsupported, Row, Table
        from vt.astb import render
        from vt import realrun as R
        from vtlengine.Exceptions import VTLEngineException
        out["script"] = render(tpl["ast"])
        try:
            case = H.Case(tpl["id"], tpl["ast"], tpl["structs"], nrows=tpl.get("nrows", 2), scalars=tpl.get("scalars"),
                          scalar_values=tpl.get("scalar_values"), opts=tpl.get("opts"), evaluator_cls=_evaluator(tpl)).build()
        except Exception as e:  # noqa
            if _raw_build_failure(tpl, e) is None:
                raise
            out.update(status="not_encoded", reason="the real pipeline raises a raw error for this script (reported by the property the template belongs to and by C32)")
            return out
        try:
            case.encode()
        except (Unsupported, sqlglot_errors.ParseError) as e:
            out.update(status="not_encoded", reason="SQL: %s" % str(e)[:200])
            return out
        ctx = case.ctx
        # the statement's preconditions (total analytic orderings ...) are the reference's domain constraints
        domain = []
        try:
            from vt.spec import ref as REF
            ref_cls = REF.Ref
            if tpl.get("evaluator") == "time":
                from vt.spec.timeref import TimeRef
                ref_cls = TimeRef
            rf = ref_cls(ctx, case.inputs, scalars=tpl.get("ref_scalars"))
            rf.run(tpl["ast"])
            domain = list(rf.domain)
        except Unsupported:
            domain = []
        ords = [v for v in ctx.input_vars if v.sort() == z3.IntSort() and ".o" in str(v) and str(v).split(".")[-1].startswith("o")]
        ords2 = [z3.Int(str(v) + "'") for v in ords]
        sub = list(zip(ords, ords2))
        assume2 = [z3.substitute(a, *sub) for a in ctx.assume]
        queries = []
        for name, T in case.results.items():
            rows2 = [Row(z3.substitute(r.present, *sub), {c: type(v)(v.kind, z3.substitute(v.null, *sub), z3.substitute(v.val, *sub) if v.val is not None else None, v.fields)
                                                          for c, v in r.cols.items()}, r.ord) for r in T.rows]
            if any(v.kind == "struct" for r in T.rows for v in r.cols.values()):
                out.update(status="not_encoded", reason="struct column")
                return out
            T2 = Table(T.cols, rows2)
            depends = any(not z3.eq(a.present, b.present) or any(a.cols[c].val is not None and (not z3.eq(a.cols[c].val, b.cols[c].val) or not z3.eq(a.cols[c].null, b.cols[c].null)) for c in T.cols)
                          for a, b in zip(T.rows, rows2))
            s = z3.Solver()
            s.set("timeout", tpl.get("timeout_ms", 20000))
            s.add(*ctx.assume)
            s.add(*assume2)
            s.add(*domain)
            s.push()
            s.add(z3.Or(*[r.present for r in T.rows]))
            if s.check() == z3.unsat:
                out.update(status="harness_error", reason="vacuous")
                return out
            s.pop()
            s.add(z3.Not(ctx.error_flag()))
            s.add(equiv.rows_differ(T, T2, T.cols))
            t = time.time()
            r = s.check()
            dt = time.time() - t
            out["solver_s"] += dt
            queries.append(dict(result=name, verdict=str(r), solver_s=round(dt, 3), result_mentions_physical_order=bool(depends)))
            if r == z3.sat:
                m = s.model()
                subs1 = equiv.model_subs(case, m)
                subs2 = [(v, m.eval(z3.substitute(v, *sub), model_completion=True)) for v in ctx.input_vars]
                outs = []
                for sb in (subs1, subs2):
                    cin, dfs = equiv.frames(case, sb)
                    try:
                        res = R.run_ast(case.ast, case.struct_dict, dfs)
                        cols, rows = R.rows(res[name])
                        outs.append((cin, (cols, rows)))
                    except VTLEngineException as e:
                        outs.append((cin, "VTL error %s" % type(e).__name__))
                if outs[0][1] != outs[1][1]:
                    out.update(status="violated", key="%s:order" % tpl["id"], what="result depends on the physical order of input rows",
                               info=dict(inputs=H._jsonable(outs[0][0]), inputs_permuted=H._jsonable(outs[1][0]), observed=str(outs[0][1])[:400],
                                         observed_permuted=str(outs[1][1])[:400], what="result depends on the physical order of input rows"))
                    return out
                out.update(status="harness_error", reason="order counterexample for %s does not reproduce: %s" % (name, H._jsonable(outs[0][0])))
                return out
            if r != z3.unsat:
                out["status"] = "undecided"
                out["notes"].append("query %s: %s" % (name, r))
                out["queries"] = queries
                return out
        out["queries"] = queries
        out["status"] = "discharged"
        return out
    except Exception as e:  # noqa
        out.update(status="harness_error", reason="driver exception %s: %s" % (type(e).__name__, str(e)[:300]), tb=traceback.format_exc()[-1500:])
        return out
    finally:
        out["wall_s"] = round(time.time() - t0, 2)


# ---------------------------------------------------------------------- C32: every reachable runtime-error site surfaces as a VTL error
def classify_exception(e):
    """-> ('vtl', code) for a VTLEngineException carrying a catalogued code, ('vtl-nocode', class) for one without,
    ('raw', class) for anything else"""
    from vtlengine.Exceptions import VTLEngineException
    from vtlengine.Exceptions.messages import centralised_messages
    if isinstance(e, VTLEngineException):
        code = e.args[1] if len(e.args) > 1 else None
        if code in centralised_messages:
            return "vtl", code
        return "vtl-nocode", type(e).__name__
    return "raw", type(e).__name__


def site_class(tag):
    """error-site class used in finding keys: the VTL code of an error() macro call, or the DuckDB kernel"""
    m = re.search(r"(\d-\d-\d+-\d+)", tag)
    if tag.startswith("error:") and m:
        return "macro-" + m.group(1)
    return re.sub(r"[^A-Za-z0-9_.:-]+", "_", tag)[:60]


def run_errors(tpl):
    """For one template: every runtime-error site of the emitted SQL (error() calls of the macros, DuckDB kernel domain errors,
    BIGINT overflow) -> is it reachable from a valid input (solver)? if so, what escapes the real run() for the witness?"""
    t0 = time.time()
    out = dict(id=tpl["id"], status="ok", subs=[], solver_s=0.0, notes=[])
    try:
        from vt.sqlsmt import equiv, harness as H
        from vt.sqlsmt.sym import Unsupported
        from vt.astb import render
        from vt import realrun as R
        out["script"] = render(tpl["ast"])
        opts = dict(tpl.get("opts") or {})
        opts["int64"] = True
        opts.pop("int_bound", None)
        try:
            case = H.Case(tpl["id"], tpl["ast"], tpl["structs"], nrows=tpl.get("nrows", 2), scalars=tpl.get("scalars"),
                          scalar_values=tpl.get("scalar_values"), opts=opts, evaluator_cls=_evaluator(tpl)).build()
        except Exception as e:  # noqa
            info = _raw_build_failure(tpl, e)
            if info is None:
                raise
            exc = (re.match(r"raw (\w+)", info["observed"]) or [None, "?"])[1]
            out["subs"].append(dict(id="%s:transpile" % tpl["id"], tag="transpile", script=out["script"], solver_s=0.0, verdict="concrete", status="violated",
                                    inputs=info["inputs"], observed=info["observed"], key="C32:transpile:%s:raw-%s" % (tpl["id"].split(".")[-1], exc),
                                    what="run() lets %s escape" % info["observed"][:200]))
            return out
        try:
            case.encode()
        except (Unsupported, sqlglot_errors.ParseError) as e:
            # SQL outside the encoder (or not SQL at all): no verdict; auxiliary probe of the real engine on a few concrete valid inputs - a raw
            # failure there is a failure of the real code and is reported (class: statement SQL rejected by DuckDB)
            case.opts.pop("int64", None)
            info = case.probe_real(seed=int(os.environ.get("VERIF_SEED") or 0))
            if info is not None:
                exc = (re.match(r"raw (\w+)", info["observed"]) or [None, "?"])[1]
                out["subs"].append(dict(id="%s:emitted-sql" % tpl["id"], tag="emitted-sql", script=out["script"], solver_s=0.0, verdict="concrete", status="violated",
                                        inputs=info["inputs"], observed=info["observed"], key="C32:emitted-sql:%s:raw-%s" % (tpl["id"].split(".")[-1], exc),
                                        what="run() lets %s escape" % info["observed"][:200]))
                return out
            out.update(status="not_encoded", reason="SQL: %s" % str(e)[:200])
            return out
        ctx = case.ctx
        cells, skipped, mism = case.selfcheck(samples=tpl.get("samples", 4), seed=int(os.environ.get("VERIF_SEED") or 0), err_overapprox=True)
        out["selfcheck"] = dict(cells=cells, mismatches=len(mism))
        if mism:
            out.update(status="harness_error", reason="encoding (incl. error events) disagrees with real DuckDB on concrete tables: %s" % json.dumps(mism[0], default=str)[:600])
            return out
        sites = {}
        for cond, tag in ctx.errors:
            if tag.startswith("nonfinite"):
                continue
            sites.setdefault(tag, []).append(cond)
        out["sites"] = sorted(sites)
        for tag, conds in sorted(sites.items()):
            sub = dict(id="%s:%s" % (tpl["id"], site_class(tag)), tag=tag, script=out["script"])
            s = z3.Solver()
            s.set("timeout", tpl.get("timeout_ms", 20000))
            s.add(*ctx.assume)
            s.add(z3.Or(*conds))
            t = time.time()
            r = s.check()
            dt = time.time() - t
            out["solver_s"] += dt
            sub["solver_s"] = round(dt, 3)
            sub["verdict"] = str(r)
            if r == z3.unsat:
                sub.update(status="discharged", how="site unreachable from any valid input within the bound")
            elif r != z3.sat:
                sub.update(status="undecided")
            else:
                fired = False
                for attempt in range(4):
                    m = s.model()
                    subs = equiv.model_subs(case, m)
                    cin, dfs = equiv.frames(case, subs)
                    sub["inputs"] = H._jsonable(cin)
                    try:
                        kw = dict(tpl.get("run_kw") or {})
                        if opts.get("tp_format"):
                            kw["time_period_output_format"] = opts["tp_format"]
                            sub["run_kw"] = kw
                        R.run_ast(case.ast, case.struct_dict, dfs, **kw)
                    except Exception as e:  # noqa
                        fired = True
                        kind, name = classify_exception(e)
                        sub["observed"] = "%s %s: %s" % (kind, name, str(e)[:160])
                        if kind == "vtl":
                            sub.update(status="discharged", how="reachable; surfaces as VTL error %s" % name)
                        else:
                            sub.update(status="violated", key="C32:%s:%s-%s" % (site_class(tag), kind, name),
                                       what="run() lets %s escape (site %s)" % (sub["observed"], tag))
                        break
                    # the real engine did not execute the failing expression for this witness: ask for a different one
                    s.add(z3.Or(*[v != m.eval(v, model_completion=True) for v in ctx.input_vars if not z3.is_string(v)][:40]))
                    if s.check() != z3.sat:
                        break
                if not fired:
                    sub.update(status="lazy", note="the site fires in the encoding only: DuckDB does not evaluate the failing expression for the witnesses tried "
                                                   "(projection pruned / evaluated after a later filter); no exception escapes")
            out["subs"].append(sub)
        return out
    except Exception as e:  # noqa
        out.update(status="harness_error", reason="driver exception %s: %s" % (type(e).__name__, str(e)[:300]), tb=traceback.format_exc()[-1500:])
        return out
    finally:
        out["wall_s"] = round(time.time() - t0, 2)
