"""C30, rounding of fetched Number scalars to OUTPUT_NUMBER_SIGNIFICANT_DIGITS (io/_execution._round_significant).

The function is float code around math.log10 / round (C level: CrossHair realises there), so its CURRENT source is translated (ast) into
real arithmetic, one decade of magnitudes at a time:

  for |value| in [10^e, 10^(e+1))   (e = -8 .. 8; the exact power 10^e is a case of its own)
      math.log10(abs(value))  is the abstract value  Log(e, exact)         ceil -> e (exact) / e+1,  floor -> e,
                                                                           int  -> e if e >= 0 or exact else e+1   (truncation toward zero)
      round(value, n)         is any r = k / 10^n (k integer) with |r - value| <= 0.5 * 10^-n

and z3 decides, for every significant-digit setting 6..15 and every real value of the decade, that the result is the value rounded to that
many significant digits:  |result - value| <= 0.5 * 10^(e + 1 - digits).   unsat = holds for the whole decade.  A model is replayed on the
real function (float arithmetic) against exact decimal rounding before it is reported.  Outside: magnitudes beyond 10^+-8, the last-bit
behaviour of math.log10 / round on binary floats (real arithmetic stands for it), values that are not finite."""
import ast
import fractions
import inspect
import textwrap
import time

import z3


class NotEncoded(Exception):
    pass


class Log:
    def __init__(self, e, exact):
        self.e, self.exact = e, exact


class Rounded:
    """round(value, n): n may be one of two integers depending on `exact`"""

    def __init__(self, v, n):
        self.v, self.n = v, n


def p10(n):
    return z3.RealVal(fractions.Fraction(10) ** n)


class NumInterp:
    def __init__(self, fn_ast, value, sig, e, exact):
        self.fn, self.value, self.sig, self.e, self.exact = fn_ast, value, sig, e, exact
        self.constraints = []
        self.n = 0

    def run(self):
        env = {self.fn.args.args[0].arg: self.value, self.fn.args.args[1].arg: self.sig}
        return self.block(self.fn.body, env)

    def block(self, stmts, env):
        for st in stmts:
            if isinstance(st, ast.Expr) and isinstance(st.value, ast.Constant):
                continue
            if isinstance(st, (ast.Import, ast.ImportFrom)):
                continue
            if isinstance(st, ast.If):
                c = self.ev(st.test, env)
                if c is True:
                    r = self.block(st.body, env)
                    if r is not None:
                        return r
                elif c is False:
                    r = self.block(st.orelse, env)
                    if r is not None:
                        return r
                else:
                    raise NotEncoded("symbolic branch")
                continue
            if isinstance(st, ast.Assign) and len(st.targets) == 1 and isinstance(st.targets[0], ast.Name):
                env[st.targets[0].id] = self.ev(st.value, env)
                continue
            if isinstance(st, ast.Return):
                return self.ev(st.value, env)
            raise NotEncoded("statement %s" % type(st).__name__)
        return None

    def ev(self, e, env):
        if isinstance(e, ast.Constant):
            return e.value
        if isinstance(e, ast.Name):
            if e.id in env:
                return env[e.id]
            raise NotEncoded("name %s" % e.id)
        if isinstance(e, ast.Compare) and len(e.ops) == 1 and isinstance(e.ops[0], ast.Eq):
            a, b = self.ev(e.left, env), self.ev(e.comparators[0], env)
            if a is self.value and b in (0, 0.0):
                return False          # the decade excludes zero (zero is its own concrete case)
            raise NotEncoded("comparison")
        if isinstance(e, ast.BoolOp):
            vals = [self.ev(x, env) for x in e.values]
            if not all(isinstance(x, bool) for x in vals):
                raise NotEncoded("symbolic boolean operator")
            return all(vals) if isinstance(e.op, ast.And) else any(vals)
        if isinstance(e, ast.UnaryOp) and isinstance(e.op, ast.Not):
            x = self.ev(e.operand, env)
            if not isinstance(x, bool):
                raise NotEncoded("symbolic not")
            return not x
        if isinstance(e, ast.BinOp):
            a, b = self.ev(e.left, env), self.ev(e.right, env)
            return self.arith(e.op, a, b)
        if isinstance(e, ast.UnaryOp) and isinstance(e.op, ast.USub):
            return self.arith(ast.Sub(), 0, self.ev(e.operand, env))
        if isinstance(e, ast.Call):
            f = e.func
            name = f.attr if isinstance(f, ast.Attribute) else f.id if isinstance(f, ast.Name) else None
            args = [self.ev(a, env) for a in e.args]
            if name == "abs" and args[0] is self.value:
                return ("abs",)
            if name in ("isfinite",) and args[0] is self.value:
                return True           # the decades hold finite values (the three non-finite values are a concrete case of their own)
            if name in ("isinf", "isnan") and args[0] is self.value:
                return False
            if name == "log10" and args[0] == ("abs",):
                return Log(self.e, self.exact)
            if name in ("ceil", "floor", "int", "trunc") and isinstance(args[0], Log):
                lg = args[0]
                if name == "ceil":
                    return ("ifexact", lg.e, lg.e + 1)
                if name == "floor":
                    return ("ifexact", lg.e, lg.e)
                return ("ifexact", lg.e, lg.e if lg.e >= 0 else lg.e + 1)
            if name == "round" and len(args) == 2 and args[0] is self.value:
                return Rounded(self.value, args[1])
            if name == "float" and len(args) == 1:
                return args[0]
            raise NotEncoded("call %s" % name)
        raise NotEncoded("expression %s" % type(e).__name__)

    def arith(self, op, a, b):
        def lift(x):
            if isinstance(x, tuple) and x and x[0] == "ifexact":
                return x
            if isinstance(x, int):
                return ("ifexact", x, x)
            if x is self.sig:
                return ("sig", 0, 0)
            if isinstance(x, tuple) and x and x[0] == "sig":
                return x
            raise NotEncoded("arithmetic operand %r" % (x,))
        a, b = lift(a), lift(b)
        sgn = {ast.Add: 1, ast.Sub: -1}.get(type(op))
        if sgn is None:
            raise NotEncoded("operator")
        # values of the form  [sig +] c  with c depending on exactness: ('sig'|'ifexact', c_exact, c_other)
        if a[0] == "sig" and b[0] == "ifexact":
            return ("sig", a[1] + sgn * b[1], a[2] + sgn * b[2])
        if a[0] == "ifexact" and b[0] == "ifexact":
            return ("ifexact", a[1] + sgn * b[1], a[2] + sgn * b[2])
        if a[0] == "ifexact" and b[0] == "sig" and sgn == 1:
            return ("sig", a[1] + b[1], a[2] + b[2])
        raise NotEncoded("arithmetic shape")


def run_round(rep, tier):
    from vt import boot
    boot.boot()
    import decimal
    import vtlengine.duckdb_transpiler.io._execution as EX
    fn = ast.parse(textwrap.dedent(inspect.getsource(EX._round_significant))).body[0]
    lo_e, hi_e = (-6, 6) if tier == "quick" else (-8, 8)
    t0 = time.time()
    nq = 0
    bad = None
    try:
        for e in range(lo_e, hi_e + 1):
            for exact in (False, True):
                for sig in range(6, 16):
                    v = z3.Real("v")
                    out = NumInterp(fn, v, ("sig", 0, 0), e, exact).run()
                    if not isinstance(out, Rounded):
                        raise NotEncoded("the function does not return round(value, n)")
                    n_ = out.n
                    if not (isinstance(n_, tuple) and n_[0] == "sig"):
                        raise NotEncoded("decimals of round() not of the form digits - d")
                    n = sig + (n_[1] if exact else n_[2])
                    s = z3.Solver()
                    s.set("timeout", 20000)
                    k = z3.Int("k")
                    a = z3.If(v >= 0, v, -v)
                    if exact:
                        s.add(a == p10(e))
                    else:
                        s.add(a > p10(e), a < p10(e + 1))
                    r = z3.ToReal(k) * p10(-n)
                    s.add(r - v <= p10(-n) / 2, v - r <= p10(-n) / 2)
                    tol = p10(e + 1 - sig) / 2
                    s.add(z3.Or(r - v > tol, v - r > tol))
                    nq += 1
                    c = s.check()
                    if c == z3.sat:
                        m = s.model()
                        vv = m.eval(v, model_completion=True)
                        fv = float(fractions.Fraction(vv.numerator_as_long(), vv.denominator_as_long()))
                        got = EX._round_significant(fv, sig)
                        want = float(decimal.Context(prec=sig, rounding=decimal.ROUND_HALF_EVEN).create_decimal(repr(fv)))
                        if abs(got - want) > abs(want) * 1e-15:
                            bad = (fv, sig, got, want)
                            break
                    elif c != z3.unsat:
                        rep.ob("round:e%d:%s:d%d" % (e, "pow10" if exact else "open", sig), "undecided", 0, nontrivial=False)
                if bad:
                    break
            if bad:
                break
    except NotEncoded as ex:
        rep.ob("round-significant", "not_encoded", 0, nontrivial=False, reason="_round_significant uses a construct outside the translator: %s" % ex)
        return
    dt = time.time() - t0
    if bad:
        key = "C30:round-significant"
        what = "_round_significant(%r, %d) returns %r; the value rounded to %d significant digits is %r" % (bad[0], bad[1], bad[2], bad[1], bad[3])
        st = rep.violation(key, what, dict(value=bad[0], digits=bad[1], got=bad[2], want=bad[3]))
        rep.ob("round-significant", st, dt, key=key, what=what)
    else:
        rep.ob("round-significant", "discharged", dt, queries=nq,
               how="for every decade 10^%d..10^%d (open decade and exact power), every setting 6..15 and every real value: the result is within half a unit of the last significant digit" % (lo_e, hi_e))
    # the three non-finite floats (a scalar such as exp(1000) is inf): the function must return, not raise (exhaustive over {inf, -inf, nan})
    t1 = time.time()
    bad_nf = []
    for x in (float("inf"), float("-inf"), float("nan")):
        for sig in (6, 15):
            try:
                EX._round_significant(x, sig)
            except Exception as ex:  # noqa
                bad_nf.append((x, sig, "%s: %s" % (type(ex).__name__, ex)))
    if bad_nf:
        key = "C30:round-significant:non-finite"
        what = "_round_significant(%r, %d) raises %s: a raw Python error escapes run() for a non-finite scalar result (e.g. exp(1000))" % bad_nf[0]
        st = rep.violation(key, what, dict(value=repr(bad_nf[0][0]), digits=bad_nf[0][1], error=bad_nf[0][2]))
        rep.ob("round-significant:non-finite", st, time.time() - t1, key=key, what=what)
    else:
        rep.ob("round-significant:non-finite", "discharged", time.time() - t1, how="inf, -inf and nan are returned unchanged (all three values, 2 settings)")
    rep.functions.append("io/_execution._round_significant (current source translated into real arithmetic, one decade per query)")
    rep.outside.append("last-bit behaviour of math.log10 / round on binary floats; magnitudes beyond the decades analysed; how _normalize_scalar_value obtains the setting")
