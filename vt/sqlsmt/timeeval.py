"""Time layer of engine A: Time_Period values as (year, indicator, number) triples, Date values as day
numbers, the calendar builtins of DuckDB through vt/sqlsmt/cal.py, struct literals / field access and
the small "structured string" algebra the time macros need (CAST(int AS VARCHAR), LPAD, ||, STRPTIME).

Kinds added to sym.SV:
  tp     canonical Time_Period string, fields year/ind/num (SV int / SV str / SV int); 'A' periods have num 1
  struct DuckDB STRUCT (vtl_time_period), fields by name
  sstr   transient structured string: fields["parts"] = list of ('lit', str) | ('int', SV, pad|None) | ('str', SV)
"""
import z3
from sqlglot import exp

from vt.sqlsmt import cal
from vt.sqlsmt.sqleval import Evaluator, Scope, Tup
from vt.sqlsmt.sym import FALSE, NULL, SV, TRUE, Unsupported, as_kind, is_true, ite, lit, same, unify

WIDTH = {"S": 1, "Q": 1, "M": 2, "W": 2, "D": 3}
INDS = ["A", "S", "Q", "M", "W", "D"]


def tp(year, ind, num, null=FALSE):
    return SV("tp", null, None, {"year": year, "ind": ind, "num": num})


def tp_sv(y, i, n, null=FALSE):
    return tp(SV("int", FALSE, y), SV("str", FALSE, i), SV("int", FALSE, n), null)


def valid_tp(y, i, n, ymin, ymax):
    """calendar validity of a period triple (z3 terms)"""
    return z3.And(y >= ymin, y <= ymax, z3.Or(
        z3.And(i == z3.StringVal("A"), n == 1),
        z3.And(i == z3.StringVal("S"), n >= 1, n <= 2),
        z3.And(i == z3.StringVal("Q"), n >= 1, n <= 4),
        z3.And(i == z3.StringVal("M"), n >= 1, n <= 12),
        z3.And(i == z3.StringVal("W"), n >= 1, n <= cal.weeks_in_year(y)),
        z3.And(i == z3.StringVal("D"), n >= 1, n <= cal.diy(y))))


def tp_key_less(a, b):
    """string order of two canonical period strings ('2020A' vs '2020-M01': '-' sorts before 'A')"""
    ay, ai, an = a.fields["year"].val, a.fields["ind"].val, a.fields["num"].val
    by, bi, bn = b.fields["year"].val, b.fields["ind"].val, b.fields["num"].val
    aA, bA = ai == z3.StringVal("A"), bi == z3.StringVal("A")
    return z3.Or(ay < by, z3.And(ay == by, z3.Or(
        z3.And(z3.Not(aA), bA),
        z3.And(z3.Not(aA), z3.Not(bA), z3.Or(ai < bi, z3.And(ai == bi, an < bn))))))


class TimeEvaluator(Evaluator):
    YMIN, YMAX = 1900, 2100

    def __init__(self, ctx, tables, macros=None):
        super().__init__(ctx, tables, macros)
        self.cal = cal.Cal(ctx)

    # ------------------------------------------------------------------ structs
    def x_Struct(self, e, sc):
        f = {}
        for p in e.expressions:
            if not isinstance(p, exp.PropertyEQ):
                raise Unsupported("struct literal entry %s" % type(p).__name__)
            f[p.this.name] = self.norm(self.expr(p.expression, sc))
        return SV("struct", FALSE, None, f)

    def x_Dot(self, e, sc):
        base = self.expr(e.this, sc)
        return self.field(base, e.expression.name)

    def field(self, base, name):
        if base.kind == "tp":
            base = self.parse_tp(base)
        if base.kind != "struct" or base.fields is None:
            raise Unsupported("field access on %s" % base.kind)
        if name not in base.fields:
            raise Unsupported("unknown struct field %s" % name)
        f = base.fields[name]
        return SV(f.kind, z3.Or(base.null, f.null), f.val, f.fields)

    def x_Column(self, e, sc):
        if e.args.get("db") is not None and e.args.get("catalog") is None:
            # alias.struct_col.field
            base = sc.resolve(e.table, e.args["db"].name)
            return self.field(base, e.name)
        if e.table:
            try:
                return sc.resolve(e.name, e.table)
            except Unsupported:
                base = sc.resolve(e.table)      # struct column . field
                return self.field(base, e.name)
        return sc.resolve(e.name, None)

    def cast(self, a, tn, sc, try_, to=None):
        if tn == "VTL_TIME_PERIOD":
            return a
        if tn in ("VARCHAR", "TEXT") and a.kind == "int":
            return SV("sstr", a.null, None, {"parts": [("int", a, None)]})
        if tn in ("VARCHAR", "TEXT") and a.kind in ("tp", "sstr", "iv"):
            return a
        if tn in ("VARCHAR", "TEXT") and a.kind == "date":
            return self.date_sstr(a)
        if tn in ("VARCHAR", "TEXT") and a.kind == "real":
            # DOUBLE renders with a fractional part ('2.0'): never the digits-only spelling of a period number
            return SV("sstr", a.null, None, {"parts": [("real", a, None)]})
        if tn in ("DATE", "TIMESTAMP", "TIMESTAMPNTZ", "TIMESTAMPTZ"):
            if a.kind == "date":
                return a
            if a.kind == "null":
                return NULL("date")
            if a.kind == "sstr":
                return self.sstr_to_date(a, sc)
        if tn in ("BIGINT", "INTEGER", "INT") and a.kind == "sstr":
            parts = a.fields["parts"]
            if len(parts) == 1 and parts[0][0] == "int":
                if a.fields.get("empty_if") is not None and sc is not None:
                    # CAST('' AS INTEGER) is a conversion error
                    self.ctx.error(z3.And(sc.guard, z3.Not(a.null), a.fields["empty_if"]), "duckdb:cast-empty-string")
                return SV("int", a.null, parts[0][1].val)
        return super().cast(a, tn, sc, try_, to)

    # ------------------------------------------------------------------ structured strings
    def date_sstr(self, a):
        """'YYYY-MM-DD' rendering of a date value; keeps the date itself (reading it back is exact)"""
        y, m, d = self.cal.civil(a.val)
        parts = [("int", SV("int", FALSE, y), None), ("lit", "-"), ("int", SV("int", FALSE, m), 2), ("lit", "-"), ("int", SV("int", FALSE, d), 2)]
        return SV("sstr", a.null, None, {"parts": parts, "date": a})

    def x_SplitPart(self, e, sc):
        a = self.expr(e.this, sc)
        dl, ix = e.args.get("delimiter"), e.args.get("part_index")
        if a.kind == "null":
            return NULL("str")
        if a.kind != "iv" or not isinstance(dl, exp.Literal) or dl.this != "/" or not isinstance(ix, exp.Literal) or ix.this not in ("1", "2", 1, 2):
            raise Unsupported("SPLIT_PART shape")
        d = a.fields["d1" if str(ix.this) == "1" else "d2"]
        r = self.date_sstr(SV("date", z3.Or(a.null, d.null), d.val))
        return r

    def x_Length(self, e, sc):
        a = self.expr(e.this, sc)
        if a.kind == "tp":
            # canonical spelling: YYYYA | YYYY-Sn | YYYY-Qn | YYYY-Mnn | YYYY-Wnn | YYYY-Dnnn
            i = a.fields["ind"].val
            ln = z3.If(i == z3.StringVal("A"), 5, z3.If(z3.Or(i == z3.StringVal("S"), i == z3.StringVal("Q")), 7, z3.If(i == z3.StringVal("D"), 9, 8)))
            return SV("int", a.null, ln)
        return super().x_Length(e, sc)

    def x_Substring(self, e, sc):
        a = self.expr(e.this, sc)
        if a.kind != "tp":
            return super().x_Substring(e, sc)
        st, ln = e.args.get("start"), e.args.get("length")
        if not isinstance(st, exp.Literal) or (ln is not None and not isinstance(ln, exp.Literal)):
            raise Unsupported("SUBSTR(period, symbolic position)")
        st, ln = int(st.this), (int(ln.this) if ln is not None else None)
        i = a.fields["ind"].val
        isA = i == z3.StringVal("A")
        if (st, ln) == (1, 4):
            return SV("sstr", a.null, None, {"parts": [("int", a.fields["year"], 4)]})
        if (st, ln) == (5, 1):
            return SV("str", a.null, z3.If(isA, z3.StringVal("A"), z3.StringVal("-")), {"upper_invariant": True})
        if (st, ln) == (6, 1):
            return SV("str", a.null, z3.If(isA, z3.StringVal(""), i), {"upper_invariant": True})
        if st == 7 and ln is None:
            # the period number as spelled (padded to the indicator's width); annual periods have nothing there
            w = z3.If(z3.Or(i == z3.StringVal("S"), i == z3.StringVal("Q")), 1, z3.If(i == z3.StringVal("D"), 3, 2))
            return SV("sstr", a.null, None, {"parts": [("int", a.fields["num"], "w")], "empty_if": isA})
        if st == 6 and ln is None:
            # only read by the branch for non-normalised spellings ('YYYYDnnn'), which a canonical value never takes: indicator + number,
            # not an integer (a CAST of it fails)
            return SV("sstr", a.null, None, {"parts": [("int", a.fields["num"], "w")], "empty_if": TRUE})
        raise Unsupported("SUBSTR(period, %s, %s)" % (st, ln))

    def x_Upper(self, e, sc):
        a = self.expr(e.this, sc)
        if a.kind == "str" and a.fields and a.fields.get("upper_invariant"):
            return a
        return self._uf1("upper", a, "str", "str")

    def norm(self, v):
        """sstr -> tp where the shape is a canonical period string"""
        if v.kind == "sstr":
            t = self.sstr_to_tp(v)
            if t is not None:
                return t
        return v

    def x_DPipe(self, e, sc):
        a, b = self.expr(e.this, sc), self.expr(e.expression, sc)
        pa, pb = self.parts(a), self.parts(b)
        if pa is None or pb is None:
            return super().x_DPipe(e, sc)
        return SV("sstr", z3.Or(a.null, b.null), None, {"parts": pa + pb})

    def parts(self, v):
        if v.kind == "sstr":
            return list(v.fields["parts"])
        if v.kind == "str":
            if z3.is_string_value(v.val):
                return [("lit", v.val.as_string())]
            return [("str", v)]
        if v.kind == "null":
            return None
        return None

    def x_Pad(self, e, sc):
        a = self.expr(e.this, sc)
        w = e.expression
        fill = e.args.get("fill_pattern")
        if not e.args.get("is_left") or not isinstance(w, exp.Literal) or fill is None or fill.this != "0":
            raise Unsupported("PAD shape")
        w = int(w.name)
        if a.kind == "sstr" and len(a.fields["parts"]) == 1 and a.fields["parts"][0][0] == "int":
            return SV("sstr", a.null, None, {"parts": [("int", a.fields["parts"][0][1], w)]})
        raise Unsupported("LPAD of %s" % a.kind)

    def sstr_to_tp(self, v):
        if v.fields.get("date") is not None:
            # 'YYYY-MM-DD' is normalised to the daily period of its day of year
            d = v.fields["date"]
            return tp_sv(self.cal.year(d.val), z3.StringVal("D"), self.cal.doy(d.val), z3.Or(v.null, d.null))
        p = []
        for part in v.fields["parts"]:
            if part[0] == "lit" and p and p[-1][0] == "lit":
                p[-1] = ("lit", p[-1][1] + part[1])
            else:
                p.append(part)
        q = []
        for part in p:
            import re as _re
            m = _re.fullmatch(r"(-[SQMWD])(\d+)", part[1]) if part[0] == "lit" else None
            if m:
                q += [("lit", m.group(1)), ("int", SV("int", FALSE, z3.IntVal(int(m.group(2)))), len(m.group(2)) if len(m.group(2)) > 1 else None)]
            else:
                q.append(part)
        p = q
        if len(p) == 3 and p[0][0] == "int" and p[1][0] == "lit" and p[2][0] == "real" and len(p[1][1]) == 2 and p[1][1][0] == "-" and p[1][1][1] in WIDTH:
            # a DOUBLE rendered into the number slot ('2.0'): not a period spelling at all
            return tp_sv(p[0][1].val, z3.StringVal(p[1][1][1]), z3.IntVal(-1000), v.null)

        def num_of(part):
            sv, pad = part[1], part[2]
            if pad is None:
                return sv.val
            ok = z3.And(sv.val >= 0, sv.val < 10 ** pad)
            return z3.If(ok, sv.val, -1000 - sv.val)     # LPAD truncates / CAST shows a sign: not a canonical number
        if len(p) == 2 and p[0][0] == "int" and p[1] == ("lit", "A"):
            return tp_sv(p[0][1].val, z3.StringVal("A"), z3.IntVal(1), v.null)
        if len(p) == 3 and p[0][0] == "int" and p[1][0] == "lit" and p[2][0] == "int" and len(p[1][1]) == 2 and p[1][1][0] == "-":
            ind = p[1][1][1]
            if ind in WIDTH:
                pad = p[2][2]
                n = num_of(p[2])
                if pad is None and WIDTH[ind] > 1:
                    # unpadded number in a padded slot: canonical only when it has exactly the slot's width
                    n = z3.If(z3.And(p[2][1].val >= 10 ** (WIDTH[ind] - 1), p[2][1].val < 10 ** WIDTH[ind]), p[2][1].val, -1000 - p[2][1].val)
                elif pad is not None and pad != WIDTH[ind]:
                    return None
                return tp_sv(p[0][1].val, z3.StringVal(ind), n, v.null)
        return None

    def sstr_to_date(self, v, sc):
        if v.fields.get("date") is not None:
            d = v.fields["date"]
            return SV("date", z3.Or(v.null, d.null), d.val)
        raise Unsupported("CAST(structured string AS DATE)")

    def x_TimeToStr(self, e, sc):
        """STRFTIME(d, fmt) for formats made of %Y %G %V %m %d %j and literal text"""
        fmt = e.args.get("format")
        a = self._date(e.this, sc)
        if not isinstance(fmt, exp.Literal):
            raise Unsupported("STRFTIME format")
        f = fmt.this
        parts, i, buf = [], 0, ""
        y, m, d = self.cal.civil(a.val)
        gy, gw = self.cal.iso(a.val)
        table = {"Y": (y, None), "G": (gy, None), "V": (gw, 2), "m": (m, 2), "d": (d, 2), "j": (self.cal.doy(a.val), 3)}
        while i < len(f):
            if f[i] == "%" and i + 1 < len(f):
                if f[i + 1] not in table:
                    raise Unsupported("STRFTIME directive %%%s" % f[i + 1])
                if buf:
                    parts.append(("lit", buf))
                    buf = ""
                v, pad = table[f[i + 1]]
                parts.append(("int", SV("int", FALSE, v), pad))
                i += 2
            else:
                buf += f[i]
                i += 1
        if buf:
            parts.append(("lit", buf))
        if f == "%Y-%m-%d":
            return self.date_sstr(a)
        return SV("sstr", a.null, None, {"parts": parts})

    def x_StrToTime(self, e, sc):
        fmt = e.args.get("format")
        a = self.expr(e.this, sc)
        if not isinstance(fmt, exp.Literal) or fmt.this != "%G-W%V-%u" or a.kind != "sstr":
            raise Unsupported("STRPTIME shape")
        p = a.fields["parts"]
        if not (len(p) == 4 and p[0][0] == "int" and p[1] == ("lit", "-W") and p[2][0] == "int" and p[2][2] == 2 and p[3][0] == "lit" and p[3][1] in ("-1", "-7")):
            raise Unsupported("STRPTIME argument shape")
        G, V, u = p[0][1].val, p[2][1].val, int(p[3][1][1])
        # DuckDB: weeks 01..53 parse (a week 53 of a 52-week year rolls into the next year), anything else fails
        self.ctx.error(z3.And(sc.guard, z3.Not(a.null), z3.Or(V < 1, V > 53, G < 1000, G > 9999)), "duckdb:strptime")
        return SV("date", a.null, cal.date_from_iso(G, V, z3.IntVal(u)))

    # ------------------------------------------------------------------ period <-> struct
    def parse_tp(self, a):
        f = a.fields
        return SV("struct", a.null, None, {"year": f["year"], "period_indicator": f["ind"], "period_number": f["num"]})

    def call(self, name, args, sc, node=None):
        ln = name.lower()
        if ln == "vtl_period_parse":
            a = self.norm(self.expr(args[0], sc))
            if a.kind == "tp":
                return self.parse_tp(a)
            if a.kind == "null":
                return NULL()
        if ln == "vtl_period_to_string":
            a = self.expr(args[0], sc)
            if a.kind == "struct" and a.fields is not None and set(a.fields) == {"year", "period_indicator", "period_number"}:
                i = a.fields["period_indicator"]
                n = a.fields["period_number"]
                isA = i.val == z3.StringVal("A")
                # canonical: 'A' carries no number; a number that does not fit its slot is not canonical
                w = z3.If(z3.Or(i.val == z3.StringVal("S"), i.val == z3.StringVal("Q")), 1, z3.If(i.val == z3.StringVal("D"), 3, 2))
                fits = z3.Or(z3.And(w == 1, n.val >= 0), z3.And(w == 2, n.val >= 0), z3.And(w == 3, n.val >= 0))
                nn = z3.If(isA, z3.IntVal(1), z3.If(fits, n.val, -1000 - n.val))
                nl = z3.Or(a.null, a.fields["year"].null, i.null, z3.And(z3.Not(isA), n.null))
                return tp(SV("int", FALSE, a.fields["year"].val), SV("str", FALSE, i.val), SV("int", FALSE, nn), nl)
            if a.kind == "null":
                return NULL()
        if ln == "vtl_period_normalize":
            a = self.norm(self.expr(args[0], sc))
            if a.kind == "tp":
                return a
        return super().call(name, args, sc, node)

    # ------------------------------------------------------------------ comparisons on time values
    def cmp(self, op, a, b):
        if a.kind == "sstr" and b.kind == "sstr" and a.fields.get("date") is not None and b.fields.get("date") is not None and op in ("=", "<>"):
            # two 'YYYY-MM-DD' renderings are equal exactly when the dates are
            da, db = a.fields["date"], b.fields["date"]
            return super().cmp(op, SV("date", z3.Or(a.null, da.null), da.val), SV("date", z3.Or(b.null, db.null), db.val))
        a, b = self.norm(a), self.norm(b)
        if a.kind == "tp" and b.kind == "str" and z3.is_string_value(b.val):
            b = self.lit_tp(b.val.as_string())
        if b.kind == "tp" and a.kind == "str" and z3.is_string_value(a.val):
            a = self.lit_tp(a.val.as_string())
        if a.kind == "tp" and b.kind == "tp":
            nl = z3.Or(a.null, b.null)
            eq = z3.And(*[a.fields[k].val == b.fields[k].val for k in ("year", "ind", "num")])
            lt, gt = tp_key_less(a, b), tp_key_less(b, a)
            v = {"=": eq, "<>": z3.Not(eq), "<": lt, ">": gt, "<=": z3.Or(lt, eq), ">=": z3.Or(gt, eq)}[op]
            return SV("bool", nl, v)
        if a.kind == "struct" and b.kind == "struct" and a.fields is not None and b.fields is not None:
            names = list(a.fields)
            nl = z3.Or(a.null, b.null)
            eq = z3.And(*[is_true(super(TimeEvaluator, self).cmp("=", a.fields[n], b.fields[n])) for n in names])
            lt = FALSE
            for n in reversed(names):
                flt = is_true(super(TimeEvaluator, self).cmp("<", a.fields[n], b.fields[n]))
                feq = is_true(super(TimeEvaluator, self).cmp("=", a.fields[n], b.fields[n]))
                lt = z3.Or(flt, z3.And(feq, lt))
            gt = z3.And(z3.Not(lt), z3.Not(eq))
            v = {"=": eq, "<>": z3.Not(eq), "<": lt, ">": gt, "<=": z3.Or(lt, eq), ">=": z3.Or(gt, eq)}[op]
            return SV("bool", nl, v)
        if "tp" in (a.kind, b.kind) or "struct" in (a.kind, b.kind):
            if "null" in (a.kind, b.kind):
                return NULL("bool")
            raise Unsupported("comparison %s / %s" % (a.kind, b.kind))
        return super().cmp(op, a, b)

    def lit_tp(self, s):
        import re
        m = re.fullmatch(r"(\d{4})A", s)
        if m:
            return tp_sv(z3.IntVal(int(m.group(1))), z3.StringVal("A"), z3.IntVal(1))
        m = re.fullmatch(r"(\d{4})-([SQMWD])(\d+)", s)
        if m and len(m.group(3)) == WIDTH[m.group(2)]:
            return tp_sv(z3.IntVal(int(m.group(1))), z3.StringVal(m.group(2)), z3.IntVal(int(m.group(3))))
        raise Unsupported("non-canonical period literal %r" % s)

    def x_Case(self, e, sc):
        # simple CASE x WHEN 'A' ... on indicator strings + branches that build period strings
        base = e.this
        taken = FALSE
        branches = []
        for br in e.args["ifs"]:
            g0 = sc.with_guard(z3.Not(taken))
            if base is not None:
                c = is_true(self.cmp("=", self.expr(base, g0), self.expr(br.this, g0)))
            else:
                c = is_true(self.expr(br.this, g0))
            here = z3.And(z3.Not(taken), c)
            branches.append((here, self.norm(self.expr(br.args["true"], sc.with_guard(here)))))
            taken = z3.Or(taken, c)
        d = e.args.get("default")
        res = self.norm(self.expr(d, sc.with_guard(z3.Not(taken)))) if d is not None else NULL()
        for here, v in reversed(branches):
            res = ite(here, v, res)
        return res

    def project(self, sel, sc):
        names, cols = super().project(sel, sc)
        return names, {k: self.norm(v) for k, v in cols.items()}

    # ------------------------------------------------------------------ dates
    def _date(self, e, sc):
        a = self.expr(e, sc)
        if a.kind == "null":
            return NULL("date")
        if a.kind != "date":
            raise Unsupported("date function on %s" % a.kind)
        return a

    def x_DateFromParts(self, e, sc):
        y, m, d = (as_kind(self.expr(e.args[k], sc), "int") for k in ("year", "month", "day"))
        nl = z3.Or(y.null, m.null, d.null)
        self.ctx.error(z3.And(sc.guard, z3.Not(nl), z3.Or(m.val < 1, m.val > 12, d.val < 1, d.val > cal.dim(y.val, m.val))), "duckdb:make_date")
        return SV("date", nl, cal.days_from_civil(y.val, m.val, d.val))

    def x_LastDay(self, e, sc):
        a = self._date(e.this, sc)
        return SV("date", a.null, self.cal.last_day(a.val))

    def x_Year(self, e, sc):
        a = self._date(e.this, sc)
        return SV("int", a.null, self.cal.year(a.val))

    def x_Month(self, e, sc):
        a = self._date(e.this, sc)
        return SV("int", a.null, self.cal.month(a.val))

    def x_Day(self, e, sc):
        a = self._date(e.this, sc)
        return SV("int", a.null, self.cal.day(a.val))

    def x_DayOfYear(self, e, sc):
        a = self._date(e.this, sc)
        return SV("int", a.null, self.cal.doy(a.val))

    def x_Quarter(self, e, sc):
        a = self._date(e.this, sc)
        return SV("int", a.null, self.cal.quarter(a.val))

    def x_Week(self, e, sc):
        a = self._date(e.this, sc)
        return SV("int", a.null, self.cal.iso(a.val)[1])

    x_WeekOfYear = x_Week

    def f_isoyear(self, args, sc):
        a = self._date(args[0], sc)
        return SV("int", a.null, self.cal.iso(a.val)[0])

    def f_isodow(self, args, sc):
        a = self._date(args[0], sc)
        return SV("int", a.null, cal.weekday(a.val))

    def x_DayOfWeekIso(self, e, sc):
        a = self._date(e.this, sc)
        return SV("int", a.null, cal.weekday(a.val))

    def x_DateDiff(self, e, sc):
        unit = (e.args.get("unit").name if e.args.get("unit") is not None else "DAY").upper()
        a, b = self._date(e.this, sc), self._date(e.expression, sc)
        nl = z3.Or(a.null, b.null)
        if unit == "DAY":
            return SV("int", nl, a.val - b.val)
        if unit == "MONTH":
            ya, ma, _ = self.cal.civil(a.val)
            yb, mb, _ = self.cal.civil(b.val)
            return SV("int", nl, (ya * 12 + ma) - (yb * 12 + mb))
        raise Unsupported("DATE_DIFF unit %s" % unit)

    def date_arith(self, op, e, a, b, sc):
        iv = e.expression if isinstance(e.expression, exp.Interval) else None
        if iv is None or a.kind not in ("date", "null"):
            raise Unsupported("date arithmetic shape")
        if a.kind == "null":
            return NULL("date")
        unit = iv.args["unit"].name.upper()
        q = iv.this
        n = self.expr(q, sc) if not (isinstance(q, exp.Literal) and q.is_string) else lit(int(q.this))
        n = as_kind(n, "int")
        k = n.val if op == "+" else -n.val
        nl = z3.Or(a.null, n.null)
        if unit == "DAY":
            return SV("date", nl, a.val + k)
        if unit == "MONTH":
            return SV("date", nl, self.cal.add_months(a.val, k))
        if unit == "YEAR":
            return SV("date", nl, self.cal.add_months(a.val, k * 12))
        raise Unsupported("INTERVAL unit %s" % unit)

    def x_Interval(self, e, sc):
        raise Unsupported("bare INTERVAL")

    def x_Abs(self, e, sc):
        return super().x_Abs(e, sc)

    # ---- aggregates over structs (MIN/MAX of parsed periods)
    def agg(self, fn, rows, distinct=False):
        kinds = {v.kind for _, v in rows}
        if "struct" in kinds and fn in ("min", "max"):
            best = None
            for m, v in rows:
                mm = z3.And(m, z3.Not(v.null))
                if best is None:
                    best = (mm, v)
                    continue
                bm, bv = best
                better = is_true(self.cmp("<" if fn == "min" else ">", v, bv))
                take = z3.And(mm, z3.Or(z3.Not(bm), better))
                best = (z3.Or(bm, mm), ite(take, v, bv))
            if best is None:
                return NULL()
            bm, bv = best
            return SV("struct", z3.Not(bm), None, bv.fields)
        if ("tp" in kinds or "struct" in kinds) and fn == "count":
            if distinct:
                vals = [(z3.And(m, z3.Not(v.null)), v) for m, v in rows]
                nv = []
                for i, (m, v) in enumerate(vals):
                    dup = [z3.And(vals[j][0], same(vals[j][1], v)) for j in range(i)]
                    nv.append(z3.And(m, *[z3.Not(d) for d in dup]))
                return SV("int", FALSE, z3.Sum([z3.If(m, 1, 0) for m in nv]))
            return SV("int", FALSE, z3.Sum([z3.If(z3.And(m, z3.Not(v.null)), 1, 0) for m, v in rows]))
        if kinds - {"null"} == {"str"} and fn == "count" and distinct:
            return super().agg(fn, rows, distinct)
        return super().agg(fn, rows, distinct)
