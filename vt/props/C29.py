"""C29 - names that differ only in letter case stay distinct (engine A: every context compared with the case-sensitive reference)."""
from vt import templates
from vt.props import _engine_a


def run(rep, tier):
    _engine_a.run(rep, tier, templates.c29(tier),
                  functions=["Transpiler.sql_builder.quote_name / build_column_expr and every visitor that aliases a column (rename, calc, aggr, join bodies, membership)",
                             "io/_validation.build_create_table_sql, io/_io.register_dataframes (through the replayed run())", "io/_execution.fetch_result column projection by component name"],
                  bounds={"quick": "19 contexts in which a component, an identifier, a dataset or a result gets / has a name differing only in case from another one (rename to a variant, alias in calc / aggr / join "
                                   "rename, inputs holding Me_1 and me_1, results DS_r and ds_r, inputs DS_4 and ds_4), all input tables of 2 datapoints",
                          "thorough": "3 datapoints"},
                  outside=["DuckDB's identifier resolution itself (case-insensitive by design) is modelled in the evaluator's column resolution and self-checked against real DuckDB",
                           "contexts not listed (pivot, analytic, validation operators with case-variant names)"])


def replay(path):
    from vt.props import _replay
    return _replay.replay_file("C29", path)
